package main

import (
	"fmt"
	"os"
	"strings"

	"golang.org/x/tools/go/packages"
	"golang.org/x/tools/go/ssa"
	"golang.org/x/tools/go/ssa/ssautil"
)

func main() {
	cfg := &packages.Config{Mode: packages.LoadAllSyntax, Dir: "/repo", BuildFlags: []string{"-tags=verif"}}
	pkgs, err := packages.Load(cfg, os.Args[1])
	if err != nil {
		panic(err)
	}
	prog, spkgs := ssautil.AllPackages(pkgs, ssa.GlobalDebug|ssa.InstantiateGenerics)
	prog.Build()
	for _, p := range spkgs {
		for _, m := range p.Members {
			if f, ok := m.(*ssa.Function); ok && match(f.Name()) {
				f.WriteTo(os.Stdout)
				for _, af := range f.AnonFuncs {
					af.WriteTo(os.Stdout)
				}
			}
			if t, ok := m.(*ssa.Type); ok {
				for _, tt := range []interface{ NumMethods() int }{} {
					_ = tt
				}
				ms := prog.MethodSets.MethodSet(t.Type())
				_ = ms
				for i := 0; i < ms.Len(); i++ {
					f := prog.MethodValue(ms.At(i))
					if f != nil && match(f.Name()) {
						f.WriteTo(os.Stdout)
					}
				}
				pt := prog.MethodSets.MethodSet(typesPtr(t))
				for i := 0; i < pt.Len(); i++ {
					f := prog.MethodValue(pt.At(i))
					if f != nil && match(f.Name()) && f.Synthetic == "" {
						f.WriteTo(os.Stdout)
						for _, af := range f.AnonFuncs {
							af.WriteTo(os.Stdout)
						}
					}
				}
			}
		}
	}
}

func match(n string) bool {
	for _, a := range os.Args[2:] {
		if strings.EqualFold(a, n) {
			return true
		}
	}
	return false
}

func init() { _ = fmt.Sprint }
