package main

import (
	"go/types"

	"golang.org/x/tools/go/ssa"
)

func typesPtr(t *ssa.Type) types.Type { return types.NewPointer(t.Type()) }
