package main

import (
	"flag"
	"fmt"
	"os"
	"strconv"

	"gocv/gocv"
)

func main() {
	if len(os.Args) < 2 {
		fmt.Fprintln(os.Stderr, "usage: vcheck check <ID> [--tier quick|thorough] [-v] | replay <file> | selftest")
		os.Exit(2)
	}
	switch os.Args[1] {
	case "check":
		fs := flag.NewFlagSet("check", flag.ExitOnError)
		tier := fs.String("tier", "", "quick|thorough")
		verbose := fs.Bool("v", false, "verbose")
		repo := fs.String("repo", "/repo", "repository")
		verif := fs.String("verif", "/verif", "verif dir")
		only := fs.String("func", "", "only functions containing this substring")
		if len(os.Args) < 3 {
			os.Exit(2)
		}
		id := os.Args[2]
		_ = fs.Parse(os.Args[3:])
		if *tier == "" {
			*tier = os.Getenv("VERIF_TIER")
		}
		if *tier == "" {
			*tier = "quick"
		}
		seed, _ := strconv.ParseInt(os.Getenv("VERIF_SEED"), 10, 64)
		os.Exit(gocv.RunCheck(gocv.CheckOpts{Prop: id, Tier: *tier, RepoDir: *repo, VerifDir: *verif, Seed: seed, Verbose: *verbose, OnlyFunc: *only}))
	case "replay":
		if len(os.Args) < 3 {
			os.Exit(2)
		}
		if gocv.ReplayFile("/repo", "/verif", os.Args[2], true) {
			fmt.Println("replay: failure confirmed on the real code")
			os.Exit(1)
		}
		fmt.Println("replay: not confirmed")
		os.Exit(0)
	case "aliases":
		// stable closure names (alias -> positional), for writing contracts
		E, err := gocv.Load("/repo", "/verif/spec", []string{"./..."})
		if err != nil {
			fmt.Fprintln(os.Stderr, err)
			os.Exit(2)
		}
		for a, p := range E.CS.Alias {
			fmt.Printf("%s\t%s\n", p, a)
		}
	default:
		fmt.Fprintln(os.Stderr, "unknown command")
		os.Exit(2)
	}
}
