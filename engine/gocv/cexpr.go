package gocv

import (
	"fmt"
	"math/big"
	"strings"
)

// Contract expression language: Go expression syntax plus
//   old(e)  result  fresh(e)  forall x T, y T :: e   exists x T :: e
//   e ==> e   e <==> e   ite(c,a,b)   calls(Label)  arg(Label,k,i)  ret(Label,k[,i])

type CExpr struct {
	Op   string // ident, int, str, char, call, index, slice, sel, unary, binary, forall, exists, paren
	Name string // ident name / operator / selector name
	Args []*CExpr
	Int  *big.Int
	Str  string
	Vars []QVar
	Pats [][]*CExpr // quantifier patterns: {e1, e2} {e3}
	Src  string
}

type QVar struct {
	Name string
	Type *CType
}

type CType struct {
	Kind string // named, ptr, slice, map
	Pkg  string
	Name string
	Elem *CType
	Key  *CType
}

func (t *CType) String() string {
	if t == nil {
		return "?"
	}
	switch t.Kind {
	case "ptr":
		return "*" + t.Elem.String()
	case "slice":
		return "[]" + t.Elem.String()
	case "map":
		return "map[" + t.Key.String() + "]" + t.Elem.String()
	}
	if t.Pkg != "" {
		return t.Pkg + "." + t.Name
	}
	return t.Name
}

type tok struct {
	k string // id, int, str, char, op, eof
	s string
	p int
}

type clex struct {
	src  string
	toks []tok
	i    int
}

func lexC(src string) ([]tok, error) {
	var ts []tok
	i := 0
	for i < len(src) {
		c := src[i]
		switch {
		case c == ' ' || c == '\t' || c == '\n' || c == '\r':
			i++
		case isIdStart(c):
			j := i + 1
			for j < len(src) && (isIdStart(src[j]) || (src[j] >= '0' && src[j] <= '9')) {
				j++
			}
			ts = append(ts, tok{"id", src[i:j], i})
			i = j
		case c >= '0' && c <= '9':
			j := i + 1
			for j < len(src) && (isHex(src[j]) || src[j] == 'x' || src[j] == 'X' || src[j] == '_') {
				j++
			}
			ts = append(ts, tok{"int", src[i:j], i})
			i = j
		case c == '"':
			j := i + 1
			var sb strings.Builder
			for j < len(src) && src[j] != '"' {
				if src[j] == '\\' && j+1 < len(src) {
					j++
					switch src[j] {
					case 'n':
						sb.WriteByte('\n')
					case 't':
						sb.WriteByte('\t')
					default:
						sb.WriteByte(src[j])
					}
				} else {
					sb.WriteByte(src[j])
				}
				j++
			}
			if j >= len(src) {
				return nil, fmt.Errorf("unterminated string at %d", i)
			}
			ts = append(ts, tok{"str", sb.String(), i})
			i = j + 1
		case c == '\'':
			// char literal
			j := i + 1
			var ch byte
			if j < len(src) && src[j] == '\\' && j+1 < len(src) {
				switch src[j+1] {
				case 'n':
					ch = '\n'
				case 't':
					ch = '\t'
				case '0':
					ch = 0
				default:
					ch = src[j+1]
				}
				j += 2
			} else if j < len(src) {
				ch = src[j]
				j++
			}
			if j >= len(src) || src[j] != '\'' {
				return nil, fmt.Errorf("bad char literal at %d", i)
			}
			ts = append(ts, tok{"char", string([]byte{ch}), i})
			i = j + 1
		default:
			ops := []string{"<==>", "==>", "::", "&&", "||", "==", "!=", "<=", ">=", "<<", ">>", "&^",
				"+", "-", "*", "/", "%", "<", ">", "!", "(", ")", "[", "]", ".", ",", ":", "&", "|", "^", "#", "{", "}"}
			found := false
			for _, op := range ops {
				if strings.HasPrefix(src[i:], op) {
					ts = append(ts, tok{"op", op, i})
					i += len(op)
					found = true
					break
				}
			}
			if !found {
				return nil, fmt.Errorf("unexpected character %q at %d in %q", c, i, src)
			}
		}
	}
	ts = append(ts, tok{"eof", "", len(src)})
	return ts, nil
}

func isIdStart(c byte) bool {
	return c == '_' || c == '$' || (c >= 'a' && c <= 'z') || (c >= 'A' && c <= 'Z')
}
func isHex(c byte) bool {
	return (c >= '0' && c <= '9') || (c >= 'a' && c <= 'f') || (c >= 'A' && c <= 'F')
}

func ParseCExpr(src string) (e *CExpr, err error) {
	ts, err := lexC(src)
	if err != nil {
		return nil, err
	}
	p := &clex{src: src, toks: ts}
	defer func() {
		if r := recover(); r != nil {
			if pe, ok := r.(parseErr); ok {
				err = fmt.Errorf("%s in %q", string(pe), src)
				return
			}
			panic(r)
		}
	}()
	e = p.expr()
	if p.peek().k != "eof" {
		p.fail("trailing tokens at %d (%q)", p.peek().p, p.peek().s)
	}
	e.Src = src
	return e, nil
}

type parseErr string

func (p *clex) fail(f string, a ...interface{}) { panic(parseErr(fmt.Sprintf(f, a...))) }
func (p *clex) peek() tok                       { return p.toks[p.i] }
func (p *clex) next() tok                       { t := p.toks[p.i]; p.i++; return t }
func (p *clex) isOp(s string) bool              { t := p.peek(); return t.k == "op" && t.s == s }
func (p *clex) accept(s string) bool {
	if p.isOp(s) {
		p.i++
		return true
	}
	return false
}
func (p *clex) expect(s string) {
	if !p.accept(s) {
		p.fail("expected %q at %d, got %q", s, p.peek().p, p.peek().s)
	}
}

func (p *clex) expr() *CExpr {
	t := p.peek()
	if t.k == "id" && (t.s == "forall" || t.s == "exists") {
		p.next()
		var vars []QVar
		for {
			n := p.next()
			if n.k != "id" {
				p.fail("expected variable name in quantifier")
			}
			var ty *CType
			if pk := p.peek(); pk.k == "id" && pk.s == "range" {
				p.next()
				num := p.next()
				if num.k != "int" {
					p.fail("expected constant after range")
				}
				ty = &CType{Kind: "range", Name: num.s}
			} else {
				ty = p.ctype()
			}
			vars = append(vars, QVar{n.s, ty})
			if !p.accept(",") {
				break
			}
		}
		var pats [][]*CExpr
		for p.accept("{") {
			var grp []*CExpr
			for {
				grp = append(grp, p.expr())
				if p.accept("}") {
					break
				}
				p.expect(",")
			}
			pats = append(pats, grp)
		}
		p.expect("::")
		body := p.expr()
		return &CExpr{Op: t.s, Vars: vars, Pats: pats, Args: []*CExpr{body}}
	}
	return p.iff()
}

func (p *clex) ctype() *CType {
	if p.accept("*") {
		return &CType{Kind: "ptr", Elem: p.ctype()}
	}
	if p.accept("[") {
		p.expect("]")
		return &CType{Kind: "slice", Elem: p.ctype()}
	}
	n := p.next()
	if n.k != "id" {
		p.fail("expected type at %d", n.p)
	}
	if n.s == "map" && p.accept("[") {
		k := p.ctype()
		p.expect("]")
		return &CType{Kind: "map", Key: k, Elem: p.ctype()}
	}
	if p.isOp(".") {
		p.next()
		m := p.next()
		return &CType{Kind: "named", Pkg: n.s, Name: m.s}
	}
	return &CType{Kind: "named", Name: n.s}
}

func (p *clex) iff() *CExpr {
	l := p.impl()
	for p.accept("<==>") {
		r := p.impl()
		l = &CExpr{Op: "binary", Name: "<==>", Args: []*CExpr{l, r}}
	}
	return l
}

func (p *clex) impl() *CExpr {
	l := p.lor()
	if p.accept("==>") {
		var r *CExpr
		t := p.peek()
		if t.k == "id" && (t.s == "forall" || t.s == "exists") {
			r = p.expr()
		} else {
			r = p.impl()
		}
		return &CExpr{Op: "binary", Name: "==>", Args: []*CExpr{l, r}}
	}
	return l
}

func (p *clex) lor() *CExpr {
	l := p.land()
	for p.accept("||") {
		r := p.land()
		l = &CExpr{Op: "binary", Name: "||", Args: []*CExpr{l, r}}
	}
	return l
}

func (p *clex) land() *CExpr {
	l := p.cmp()
	for p.accept("&&") {
		var r *CExpr
		t := p.peek()
		if t.k == "id" && (t.s == "forall" || t.s == "exists") {
			r = p.expr()
		} else {
			r = p.cmp()
		}
		l = &CExpr{Op: "binary", Name: "&&", Args: []*CExpr{l, r}}
	}
	return l
}

func (p *clex) cmp() *CExpr {
	l := p.add()
	for {
		t := p.peek()
		if t.k == "op" && (t.s == "==" || t.s == "!=" || t.s == "<" || t.s == "<=" || t.s == ">" || t.s == ">=") {
			p.next()
			r := p.add()
			l = &CExpr{Op: "binary", Name: t.s, Args: []*CExpr{l, r}}
			continue
		}
		if t.k == "id" && t.s == "in" {
			p.next()
			r := p.add()
			l = &CExpr{Op: "binary", Name: "in", Args: []*CExpr{l, r}}
			continue
		}
		return l
	}
}

func (p *clex) add() *CExpr {
	l := p.mul()
	for {
		t := p.peek()
		if t.k == "op" && (t.s == "+" || t.s == "-" || t.s == "|" || t.s == "^") {
			p.next()
			r := p.mul()
			l = &CExpr{Op: "binary", Name: t.s, Args: []*CExpr{l, r}}
			continue
		}
		return l
	}
}

func (p *clex) mul() *CExpr {
	l := p.unary()
	for {
		t := p.peek()
		if t.k == "op" && (t.s == "*" || t.s == "/" || t.s == "%" || t.s == "<<" || t.s == ">>" || t.s == "&" || t.s == "&^") {
			p.next()
			r := p.unary()
			l = &CExpr{Op: "binary", Name: t.s, Args: []*CExpr{l, r}}
			continue
		}
		return l
	}
}

func (p *clex) unary() *CExpr {
	t := p.peek()
	if t.k == "op" && (t.s == "!" || t.s == "-" || t.s == "*" || t.s == "&") {
		p.next()
		x := p.unary()
		return &CExpr{Op: "unary", Name: t.s, Args: []*CExpr{x}}
	}
	return p.postfix()
}

func (p *clex) postfix() *CExpr {
	x := p.primary()
	for {
		switch {
		case p.accept("("):
			var args []*CExpr
			if !p.accept(")") {
				for {
					args = append(args, p.expr())
					if p.accept(")") {
						break
					}
					p.expect(",")
				}
			}
			x = &CExpr{Op: "call", Args: append([]*CExpr{x}, args...)}
		case p.accept("["):
			var lo, hi *CExpr
			if p.isOp(":") {
				p.next()
				if !p.isOp("]") {
					hi = p.expr()
				}
				p.expect("]")
				x = &CExpr{Op: "slice", Args: []*CExpr{x, lo, hi}}
				continue
			}
			lo = p.expr()
			if p.accept(":") {
				if !p.isOp("]") {
					hi = p.expr()
				}
				p.expect("]")
				x = &CExpr{Op: "slice", Args: []*CExpr{x, lo, hi}}
				continue
			}
			p.expect("]")
			x = &CExpr{Op: "index", Args: []*CExpr{x, lo}}
		case p.isOp("."):
			p.next()
			n := p.next()
			if n.k != "id" && n.k != "int" {
				p.fail("expected selector name at %d", n.p)
			}
			x = &CExpr{Op: "sel", Name: n.s, Args: []*CExpr{x}}
		default:
			return x
		}
	}
}

func (p *clex) primary() *CExpr {
	t := p.next()
	switch t.k {
	case "id":
		return &CExpr{Op: "ident", Name: t.s}
	case "int":
		n := new(big.Int)
		s := strings.ReplaceAll(t.s, "_", "")
		if _, ok := n.SetString(s, 0); !ok {
			p.fail("bad integer %q", t.s)
		}
		return &CExpr{Op: "int", Int: n}
	case "str":
		return &CExpr{Op: "str", Str: t.s}
	case "char":
		return &CExpr{Op: "int", Int: big.NewInt(int64(t.s[0]))}
	case "op":
		if t.s == "(" {
			e := p.expr()
			p.expect(")")
			return e
		}
	}
	p.fail("unexpected token %q at %d", t.s, t.p)
	return nil
}

func (e *CExpr) String() string {
	if e == nil {
		return ""
	}
	switch e.Op {
	case "ident":
		return e.Name
	case "int":
		return e.Int.String()
	case "str":
		return fmt.Sprintf("%q", e.Str)
	case "call":
		var a []string
		for _, x := range e.Args[1:] {
			a = append(a, x.String())
		}
		return e.Args[0].String() + "(" + strings.Join(a, ", ") + ")"
	case "index":
		return e.Args[0].String() + "[" + e.Args[1].String() + "]"
	case "slice":
		return e.Args[0].String() + "[" + e.Args[1].String() + ":" + e.Args[2].String() + "]"
	case "sel":
		return e.Args[0].String() + "." + e.Name
	case "unary":
		return e.Name + e.Args[0].String()
	case "binary":
		return "(" + e.Args[0].String() + " " + e.Name + " " + e.Args[1].String() + ")"
	case "forall", "exists":
		var vs []string
		for _, v := range e.Vars {
			vs = append(vs, v.Name+" "+v.Type.String())
		}
		return "(" + e.Op + " " + strings.Join(vs, ", ") + " :: " + e.Args[0].String() + ")"
	}
	return "?"
}
