package gocv

import (
	"fmt"
	"strings"

	"golang.org/x/tools/go/ssa"
)

// ---------------------------------------------------------------------------
// Inlining of small helpers without a contract.
//
// A call to a function of this module that has no contract, no loop, no defer/go/select/panic and
// at most maxInlineInstrs instructions is executed symbolically in place (up to depth
// maxInlineDepth) instead of being treated as an unknown call that may change everything. The
// helper's own intrinsic safety conditions (nil, bounds, overflow, type assertions) are ASSUMED,
// not checked — it is not under contract — but the preconditions of the contracted functions it
// calls are checked, and its effects and results are exact. This keeps a contract from breaking
// when code is merely moved into a helper, and lets it see what a helper really does.

const maxInlineInstrs = 120
const maxInlineDepth = 3

type inlFrame struct {
	fn       *ssa.Function
	retBlock *ssa.BasicBlock
	retIdx   int
	res      ssa.Value
	env      map[string]*Val
}

type inlineErr struct {
	fn  *ssa.Function
	msg string
}

func (E *Engine) inlinable(fn *ssa.Function) bool {
	if fn == nil || len(fn.Blocks) == 0 || E.noInline[fn] {
		return false
	}
	if ok, seen := E.inlOK[fn]; seen {
		return ok
	}
	ok := E.inlinable0(fn)
	E.inlOK[fn] = ok
	return ok
}

func (E *Engine) inlinable0(fn *ssa.Function) bool {
	if fn.Pkg == nil || !strings.HasPrefix(fn.Pkg.Pkg.Path(), "github.com/IrineSistiana/mosdns") {
		return false
	}
	if fn.Recover != nil {
		return false
	}
	n := 0
	idx := map[*ssa.BasicBlock]int{}
	for i, b := range fn.Blocks {
		idx[b] = i
	}
	for _, b := range fn.Blocks {
		for _, s := range b.Succs {
			if idx[s] <= idx[b] {
				return false // a back edge: loops are not inlined
			}
		}
		for _, in := range b.Instrs {
			n++
			switch in.(type) {
			case *ssa.Alloc, *ssa.BinOp, *ssa.UnOp, *ssa.Call, *ssa.ChangeType, *ssa.ChangeInterface, *ssa.Convert, *ssa.Extract,
				*ssa.Field, *ssa.FieldAddr, *ssa.Index, *ssa.IndexAddr, *ssa.Lookup, *ssa.MakeInterface, *ssa.MakeSlice, *ssa.MakeMap,
				*ssa.MapUpdate, *ssa.Phi, *ssa.Slice, *ssa.Store, *ssa.TypeAssert, *ssa.If, *ssa.Jump, *ssa.Return, *ssa.DebugRef,
				*ssa.SliceToArrayPointer, *ssa.MakeChan:
			default:
				return false
			}
		}
	}
	return n <= maxInlineInstrs
}

func inlineDepth(st *State) int { return len(st.frames) }

// inlineCall starts the symbolic execution of callee in place of the call `in` (result register
// res). It never returns alternatives: every path continues the caller from doReturn.
func (E *Engine) inlineCall(st *State, in ssa.Instruction, callee *ssa.Function, args []*Val, bindings []*Val, res ssa.Value) {
	b := in.Block()
	idx := -1
	for i, x := range b.Instrs {
		if x == in {
			idx = i
		}
	}
	if idx < 0 {
		panic(engineErr("inline: call instruction not found in its block"))
	}
	E.note("call of %s (no contract) executed in place; its own nil/bounds/overflow conditions are assumed", shortKey(stripGenerics(callee.String())))
	fr := &inlFrame{fn: callee, retBlock: b, retIdx: idx + 1, res: res, env: st.env}
	st.frames = append(append([]*inlFrame(nil), st.frames...), fr)
	st.env = map[string]*Val{}
	if len(args) != len(callee.Params) {
		panic(engineErr(fmt.Sprintf("inline: %d arguments for %d parameters of %s", len(args), len(callee.Params), callee.Name())))
	}
	for i, p := range callee.Params {
		st.regs[p] = retype(args[i], p.Type())
		st.env[p.Name()] = st.regs[p]
	}
	for i, fv := range callee.FreeVars {
		if i < len(bindings) {
			st.regs[fv] = bindings[i]
		}
	}
	st.path = append(st.path, "{"+callee.Name())
	E.runBlock(st, callee.Blocks[0], nil)
}

// inlineReturn: a Return of an inlined callee: hand the results to the caller and go on there.
func (E *Engine) inlineReturn(st *State, in *ssa.Return) {
	fr := st.frames[len(st.frames)-1]
	st.frames = st.frames[:len(st.frames)-1]
	var rs []*Val
	for _, r := range in.Results {
		rs = append(rs, E.val(st, r))
	}
	if fr.res != nil {
		switch len(rs) {
		case 0:
		case 1:
			st.regs[fr.res] = retype(rs[0], fr.res.Type())
		default:
			st.regs[fr.res] = &Val{T: fr.res.Type(), F: rs}
		}
	}
	st.env = fr.env
	st.path = append(st.path, "}")
	E.runFrom(st, fr.retBlock, fr.retIdx)
}

// assumedInInline: obligation kinds that are the inlined helper's own business.
func assumedInInline(kind string) bool {
	switch kind {
	case "nil", "bounds", "overflow", "typeassert", "nil-map", "make-size", "make-chan-size", "div-zero", "bitop-nonneg":
		return true
	}
	return false
}
