package gocv

import (
	"fmt"
)

// verifyRelational: two runs of the function on independent symbolic inputs
// over the same entry heap; every pair of completed paths yields one obligation
// per relational clause. Names in the clause: <param>1, <param>2, result1, result2.
func (E *Engine) verifyRelational(c *fnCtx) {
	type run struct {
		rets   []*Val
		states []*State
		params map[string]*Val
	}
	var runs [2]run
	for r := 0; r < 2; r++ {
		c.relRun = r + 1
		c.retVals, c.retStates = nil, nil
		savedPaths := c.paths
		st := E.entryState(c, fmt.Sprintf("~%d", r+1))
		E.relSilence = true
		func() {
			defer func() { E.relSilence = false }()
			E.runBlock(st, c.fn.Blocks[0], nil)
		}()
		runs[r] = run{c.retVals, c.retStates, c.params}
		c.paths = savedPaths
	}
	c.relRun = 0
	shared := map[string]string{}
	n := 0
	for i, s1 := range runs[0].states {
		for j, s2 := range runs[1].states {
			vars := map[string]*Val{}
			for k, v := range runs[0].params {
				vars[k+"1"] = v
			}
			for k, v := range runs[1].params {
				vars[k+"2"] = v
			}
			r1, r2 := runs[0].rets[i], runs[1].rets[j]
			if len(r1.F) == 1 {
				vars["result1"], vars["result2"] = r1.F[0], r2.F[0]
			} else {
				vars["result1"], vars["result2"] = r1, r2
			}
			st := s1.clone()
			st.pc = append(append([]string{}, s1.pc...), s2.pc...)
			for ci, cl := range c.spec.Relational {
				ev := &cenv{E: E, st: st, vars: vars, heap: E.relEntryHeap(c, shared), ctx: cl.Ctx, fc: c}
				f := ev.evalBool(cl.Expr)
				c.paths = n
				E.oblige(st, "relational", fmt.Sprintf("%d", ci), f, cl.Text, "", cl)
				n++
			}
		}
	}
	c.paths = 0
	c.inputs = nil
}

func (E *Engine) relEntryHeap(c *fnCtx, shared map[string]string) map[string]string {
	// the entry heap of the last run (H0 constants are shared by name)
	h := map[string]string{}
	for k, v := range c.entryHeap {
		h[k] = v
	}
	return h
}
