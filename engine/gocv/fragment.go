package gocv

import (
	"fmt"
	"go/types"
	"strings"

	"golang.org/x/tools/go/ssa"
)

// ---------------------------------------------------------------------------
// `captured` clauses of a closure: preconditions over its captured variables.
//
// They are assumed at the closure's entry and proved at every place the enclosing function creates
// the closure, by *fragment execution*: the basic block of the enclosing function that contains the
// MakeClosure is executed from its first instruction, in a state in which every value defined
// earlier (registers, captured cells, the heap) is arbitrary. What is provable from that state
// holds on every real path through the block. The enclosing function itself is not under contract:
// its own safety obligations on the way are assumed, not reported. If the block alone does not
// determine the captured values the obligation is not discharged (and the clause cannot be used).

func (E *Engine) verifyCaptured(cl *fnCtx) {
	parent := cl.fn.Parent()
	if parent == nil {
		panic(engineErr("captured clause on a function that is not a closure"))
	}
	sites := 0
	for _, b := range parent.Blocks {
		for i, in := range b.Instrs {
			mc, ok := in.(*ssa.MakeClosure)
			if !ok || mc.Fn != cl.fn {
				continue
			}
			sites++
			E.fragmentRun(cl, parent, b, i, mc, sites)
		}
	}
	if sites == 0 {
		panic(engineErr("captured clause: no creation site found in " + parent.String()))
	}
}

func (E *Engine) fragmentRun(cl *fnCtx, parent *ssa.Function, b *ssa.BasicBlock, upto int, mc *ssa.MakeClosure, siteNo int) {
	saved := E.cur
	defer func() { E.cur = saved; E.fragment = false }()
	// a context for the enclosing function, reporting under the closure's name
	pc := &fnCtx{key: cl.key, short: cl.short, fn: parent, spec: &FuncSpec{Key: cl.key, ModAll: true, Ctx: cl.spec.Ctx, Loops: map[string]*LoopSpec{}}, props: cl.props,
		loopOf: map[*ssa.BasicBlock]*loopInfo{}, compSort: map[string]string{}, touched: map[string]bool{}, params: map[string]*Val{}, ordinals: map[ssa.Instruction]int{},
		cellOf: map[*ssa.Alloc]*Cell{}, freeVars: map[*ssa.FreeVar]*Val{}, compPtr: map[string]bool{}, factSeen: map[string]bool{}, coveredLoop: map[int]bool{}}
	cnt := map[string]int{}
	for _, bb := range parent.Blocks {
		for _, in := range bb.Instrs {
			t := fmt.Sprintf("%T", in)
			pc.ordinals[in] = cnt[t]
			cnt[t]++
		}
	}
	E.cur = pc
	E.fragment = true
	st := E.newState()
	E.declare(fAlloc0, "() (Array Int Bool)")
	st.alloc = fAlloc0
	pc.entryAlloc = st.alloc
	pc.entryHeap = st.heap
	st.heap = copyHeap(st.heap)
	st.path = append(st.path, fmt.Sprintf("frag%d", b.Index))
	site := fmt.Sprintf("site%d", siteNo)
	E.fragStop = mc
	E.fragAt = func(s *State) {
		// the closure's captured variables, as the closure will see them
		vars := map[string]*Val{}
		for k, fv := range cl.fn.FreeVars {
			if k >= len(mc.Bindings) {
				break
			}
			bv := E.val(s, mc.Bindings[k])
			nv := *bv
			if _, isPtr := types.Unalias(fv.Type()).Underlying().(*types.Pointer); isPtr {
				nv.AutoDeref = true
			}
			vars[fv.Name()] = &nv
		}
		E.coverWith(s, "captured."+site, "the block creating the closure is reachable in the fragment model", E.pos(mc), "")
		for k, c := range cl.spec.Captured {
			ev := &cenv{E: E, st: s, fc: pc, vars: vars, heap: s.heap, oldHeap: s.heap, oldVars: vars, oldAlloc: s.alloc, ctx: c.Ctx}
			ev.goal = true
			g := ev.evalBool(c.Expr)
			E.oblige(s, "captured", fmt.Sprintf("%s.%d", site, k), g, c.Text+" (at the creation of the closure, "+strings.TrimPrefix(E.pos(mc), E.RepoDir+"/")+")", E.pos(mc), c)
		}
		pc.paths++
		if pc.paths > 64 {
			panic(engineErr("captured clause: too many paths in the creating block"))
		}
	}
	defer func() { E.fragStop, E.fragAt = nil, nil }()
	E.runFrom(st, b, firstNonPhi(b))
	_ = upto
}

// fragVal: a value defined before the fragment's first instruction: arbitrary (well-formed).
func (E *Engine) fragVal(st *State, v ssa.Value) *Val {
	if a, ok := v.(*ssa.Alloc); ok && !a.Heap {
		et := deref(a.Type())
		c := E.cur.cellOf[a]
		if c == nil {
			c = &Cell{ID: len(E.cur.cellOf), Name: a.Comment, T: et}
			E.cur.cellOf[a] = c
		}
		var facts []string
		st.cells[c] = E.freshVal(et, "frag:"+a.Comment, &facts)
		facts = append(facts, E.allocFacts(st, st.cells[c])...)
		st.assume(facts...)
		r := &Val{T: a.Type(), LV: &LVal{Kind: lvLocal, Cell: c, Root: et}}
		st.regs[v] = r
		return r
	}
	var facts []string
	r := E.freshVal(v.Type(), "frag:"+v.Name(), &facts)
	facts = append(facts, E.allocFacts(st, r)...)
	if pt, isPtr := types.Unalias(v.Type()).Underlying().(*types.Pointer); isPtr && r.F == nil {
		if _, isAlloc := v.(*ssa.Alloc); isAlloc {
			facts = append(facts, not(eq(r.S, "0")))
			if strings.HasPrefix(E.rootName(pt.Elem()), "box<") {
				r.LV = &LVal{Kind: lvHeap, Ref: r.S, Root: pt.Elem(), VarCell: true}
			}
		}
		if _, isFV := v.(*ssa.FreeVar); isFV {
			facts = append(facts, not(eq(r.S, "0")))
			if strings.HasPrefix(E.rootName(pt.Elem()), "box<") {
				r.LV = &LVal{Kind: lvHeap, Ref: r.S, Root: pt.Elem(), VarCell: true}
			}
		}
	}
	st.assume(facts...)
	st.regs[v] = r
	return r
}

// ---------------------------------------------------------------------------
// Frozen captured variables.
//
// A captured variable is *frozen* for a closure if nothing can write it once the closure exists:
// in the enclosing function it is a local whose only writes are stores that precede the (single)
// creation of the closure in the same basic block, it is captured by no other closure, its address
// is used for nothing but field/element access, loads and those stores, and the closure itself
// never writes it. Such a cell is out of reach of every callee: havocAll keeps it (through the
// private-object mechanism), so the closure may rely on `captured` facts about it after calls.

func (E *Engine) frozenFreeVars(fn *ssa.Function) map[*ssa.FreeVar]bool {
	out := map[*ssa.FreeVar]bool{}
	parent := fn.Parent()
	if parent == nil {
		return out
	}
	var sites []*ssa.MakeClosure
	for _, b := range parent.Blocks {
		for _, in := range b.Instrs {
			if mc, ok := in.(*ssa.MakeClosure); ok && mc.Fn == fn {
				sites = append(sites, mc)
			}
		}
	}
	if len(sites) != 1 {
		return out
	}
	mc := sites[0]
	pos := map[ssa.Instruction]int{}
	for i, in := range mc.Block().Instrs {
		pos[in] = i
	}
	for k, fv := range fn.FreeVars {
		if k >= len(mc.Bindings) {
			break
		}
		a, ok := mc.Bindings[k].(*ssa.Alloc)
		if !ok {
			continue
		}
		if E.onlyReadVia(fv, nil, nil) && E.onlyReadVia(a, mc, pos) {
			out[fv] = true
		}
	}
	return out
}

// onlyReadVia: every use of address value v is a load, a field/element address used the same way,
// a debug reference, the creation mc of the closure (nil: no capture allowed) or — if pos is given —
// a store through v that precedes mc in mc's block.
func (E *Engine) onlyReadVia(v ssa.Value, mc *ssa.MakeClosure, pos map[ssa.Instruction]int) bool {
	refs := v.Referrers()
	if refs == nil {
		return false
	}
	for _, r := range *refs {
		switch x := r.(type) {
		case *ssa.DebugRef:
		case *ssa.UnOp:
			// load
		case *ssa.FieldAddr:
			if !E.onlyReadVia(x, mc, pos) {
				return false
			}
		case *ssa.IndexAddr:
			if x.X != v || !E.onlyReadVia(x, mc, pos) {
				return false
			}
		case *ssa.Store:
			if x.Addr != v || pos == nil || mc == nil {
				return false
			}
			p, same := pos[x]
			if !same || p >= pos[mc] {
				return false
			}
		case *ssa.MakeClosure:
			if x != mc {
				return false
			}
		default:
			return false
		}
	}
	return true
}
