package gocv

import (
	"bufio"
	"fmt"
	"os"
	"path/filepath"
	"regexp"
	"sort"
	"strings"
)

type FileCtx struct {
	File    string
	PkgPath string            // "" for ledger files
	Imports map[string]string // alias -> import path
	Trusted bool              // ledger (assumed) contracts
}

type Clause struct {
	Kind string
	Tags []string
	Expr *CExpr
	Text string
	File string
	Line int
	Ctx  *FileCtx
}

type LoopSpec struct {
	Key  string
	Invs []*Clause
	Decr *Clause
	Body []*Clause // `each`: checked at the end of every iteration (may use iter_calls/iter_arg)
	Entry []*Clause // `entry`: checked once, when the loop is entered
	Exit  []*Clause // `exit`: checked on every edge leaving the loop
}

type FuncSpec struct {
	Key        string
	Display    string
	Tags       []string
	Ctx        *FileCtx
	Line       int
	Requires   []*Clause
	Captured   []*Clause // subset of Requires: proved at the closure's creation sites
	Never      []*Clause // labels that must not be logged on any feasible path (Text = label)
	Ensures    []*Clause
	Relational []*Clause
	Modifies   []*CExpr
	HasMod     bool // a modifies clause was given (possibly "nothing")
	ModAll     bool // "modifies *": everything
	Panics     *Clause
	Pure       bool
	Trusted    bool
	NoBody     bool // contract only used at call sites (do not verify body)
	Loops      map[string]*LoopSpec
	Log        string
	Logs       []string // callee labels observable in this function's call log
	IsIface    bool
	Source     string
	Params     []string // optional explicit parameter names (ledger)
	Creates    []string
	Consumes   []string
	Havoc      []string // extra whole components havoced by a call (ledger)
	Asserts    []*Clause
	Holds      []string  // "holds mu" precondition: lock mu of receiver held (write mode)
	WaitSet    []*CExpr
	WrapSigned bool     // model signed +,-,* with two's-complement wrap-around instead of no-overflow obligations
	Preserves  []*CExpr // with modifies *: components guaranteed unchanged (comp(T.f), elemsof(T))
	presCache  []string
}

type SpecFunc struct {
	Name   string
	Params []QVar
	Ret    *CType
	Body   *CExpr
	Ctx    *FileCtx
}

type AbstractType struct {
	Path   string // import path
	Name   string
	Fields []QVar
}

type LockSpec struct {
	Field    string
	Protects []string
	Inv      []*Clause
}

type TypeSpec struct {
	Key    string // pkgpath.TypeName
	Ctx    *FileCtx
	Locks  map[string]*LockSpec
	Shared map[string]*Clause // field -> stable predicate (may be nil expr)
	Ghost  []QVar
	Chans  map[string]*ChanSpec
	Invs   []*Clause // object invariants (plain)
	Immutable map[string]bool
	Tracks map[string]string // counter field -> thread-local ghost field holding this thread's contribution
}

type ChanSpec struct {
	NoClose bool // channels of this kind are never closed: close() is an obligation `false`, a receive always delivers a message
	Elem   *CType
	Path   string
	CapMin int
	Var    string
	Msg    *Clause
}

type Contracts struct {
	Funcs    map[string]*FuncSpec
	Specs    map[string]*SpecFunc
	Axioms   []*Clause
	Lemmas   []*Clause
	Abstract map[string]*AbstractType // key: importpath.Name
	Types    map[string]*TypeSpec
	PtrIfaces map[string]bool // interfaces whose dynamic values are always pointers
	NonNilIfaces map[string]bool // interfaces whose values found in memory are assumed non-nil (ledger: nonnil-stored)
	Assumed  []string    // assumptions declared in contract files (assumed-stable, ...)
	Alias    map[string]string // stable closure names -> positional keys (alias.go)
	NonNil   []string    // package-level variables assumed non-nil (ledger)
	ChanMsgs []*ChanSpec // package-level message invariants: chanmsg T (v): P
	Files    []string
	Errors   []string
}

func NewContracts() *Contracts {
	return &Contracts{Funcs: map[string]*FuncSpec{}, Specs: map[string]*SpecFunc{}, Abstract: map[string]*AbstractType{}, Types: map[string]*TypeSpec{}, PtrIfaces: map[string]bool{}, NonNilIfaces: map[string]bool{}}
}

var headWords = map[string]bool{
	"import": true, "spec": true, "axiom": true, "lemma": true, "abstract": true, "type": true,
	"interface": true, "func": true, "requires": true, "captured": true, "ensures": true, "relational": true,
	"modifies": true, "panics": true, "decreases": true, "pure": true, "log": true, "logs": true, "loop": true,
	"invariant": true, "trusted": true, "source": true, "nobody": true, "lock": true, "shared": true,
	"ghost": true, "chan": true, "chanmsg": true, "params": true, "creates": true, "consumes": true, "havoc": true, "assert": true,
	"holds": true, "waitset": true, "immutable": true, "tracks": true, "ptriface": true, "nonnil": true, "nonnil-stored": true, "preserves": true, "each": true, "entry": true, "exit": true, "wraparound": true, "never": true,
}

type rawLine struct {
	text string
	line int
}

var tagRe = regexp.MustCompile(`^\[((?:C[0-9]+|slow)(?:\s*,\s*(?:C[0-9]+|slow))*)\]`)

func splitTags(s string) ([]string, string) {
	s = strings.TrimSpace(s)
	if m := tagRe.FindStringSubmatch(s); m != nil {
		var tags []string
		for _, t := range strings.Split(m[1], ",") {
			tags = append(tags, strings.TrimSpace(t))
		}
		return tags, strings.TrimSpace(s[len(m[0]):])
	}
	return nil, s
}

// LoadContractFile parses one contracts file. For .go files only `//@` lines count.
func (cs *Contracts) LoadContractFile(path, pkgPath string, pkgImports map[string]string, trusted bool) {
	f, err := os.Open(path)
	if err != nil {
		cs.Errors = append(cs.Errors, err.Error())
		return
	}
	defer f.Close()
	cs.Files = append(cs.Files, path)
	ctx := &FileCtx{File: path, PkgPath: pkgPath, Imports: map[string]string{}, Trusted: trusted}
	for k, v := range pkgImports {
		ctx.Imports[k] = v
	}
	isGo := strings.HasSuffix(path, ".go")
	sc := bufio.NewScanner(f)
	sc.Buffer(make([]byte, 1<<20), 1<<20)
	var lines []rawLine
	n := 0
	for sc.Scan() {
		n++
		t := sc.Text()
		if isGo {
			tt := strings.TrimSpace(t)
			if !strings.HasPrefix(tt, "//@") {
				continue
			}
			t = strings.TrimPrefix(tt, "//@")
		}
		// strip trailing comment
		if i := strings.Index(t, " // "); i >= 0 {
			t = t[:i]
		}
		if strings.HasPrefix(strings.TrimSpace(t), "//") || strings.HasPrefix(strings.TrimSpace(t), "#") {
			continue
		}
		t = strings.TrimSpace(t)
		if t == "" {
			continue
		}
		lines = append(lines, rawLine{t, n})
	}
	// group into clauses
	var clauses []rawLine
	for _, l := range lines {
		w := firstWord(l.text)
		if headWords[w] {
			clauses = append(clauses, l)
		} else if len(clauses) > 0 {
			clauses[len(clauses)-1].text += " " + l.text
		} else {
			cs.errf(ctx, l.line, "stray text %q", l.text)
		}
	}
	var curF *FuncSpec
	var curL *LoopSpec
	var curT *TypeSpec
	for _, c := range clauses {
		w := firstWord(c.text)
		rest := strings.TrimSpace(c.text[len(w):])
		mk := func(kind, text string, tags []string) *Clause {
			e, err := ParseCExpr(text)
			if err != nil {
				cs.errf(ctx, c.line, "%v", err)
				return nil
			}
			return &Clause{Kind: kind, Tags: tags, Expr: e, Text: text, File: path, Line: c.line, Ctx: ctx}
		}
		switch w {
		case "import":
			fs := strings.Fields(rest)
			if len(fs) == 2 {
				ctx.Imports[fs[0]] = strings.Trim(fs[1], `"`)
			} else if len(fs) == 1 {
				p := strings.Trim(fs[0], `"`)
				ctx.Imports[filepath.Base(p)] = p
			}
		case "ptriface":
			cs.PtrIfaces[cs.qualify(ctx, strings.TrimSpace(rest))] = true
			curF, curL, curT = nil, nil, nil
		case "nonnil-stored":
			// nonnil-stored pkg.Iface: values of this interface type read from memory are never nil
			// (assumed for memory written by code without a contract; checked at the stores and
			// single-element appends of the functions under contract)
			cs.NonNilIfaces[cs.qualify(ctx, strings.TrimSpace(rest))] = true
			curF, curL, curT = nil, nil, nil
		case "nonnil":
			// nonnil pkg.Var[, pkg.Var]: package-level error values that are never nil (assumed)
			for _, x := range strings.Split(rest, ",") {
				cs.NonNil = append(cs.NonNil, cs.qualify(ctx, strings.TrimSpace(x)))
			}
			curF, curL, curT = nil, nil, nil
		case "spec":
			cs.parseSpecFunc(ctx, c.line, rest)
			curF, curL, curT = nil, nil, nil
		case "axiom", "lemma":
			i := strings.Index(rest, ":")
			if i < 0 {
				cs.errf(ctx, c.line, "axiom needs name:")
				continue
			}
			cl := mk(w, strings.TrimSpace(rest[i+1:]), nil)
			if cl != nil {
				cl.Kind = w + ":" + strings.TrimSpace(rest[:i])
				if w == "axiom" {
					cs.Axioms = append(cs.Axioms, cl)
				} else {
					cs.Lemmas = append(cs.Lemmas, cl)
				}
			}
			curF, curL, curT = nil, nil, nil
		case "abstract":
			cs.parseAbstract(ctx, c.line, rest)
			curF, curL, curT = nil, nil, nil
		case "type":
			name := strings.TrimSpace(rest)
			key := cs.qualify(ctx, name)
			curT = cs.Types[key]
			if curT == nil {
				curT = &TypeSpec{Key: key, Ctx: ctx, Locks: map[string]*LockSpec{}, Shared: map[string]*Clause{}, Chans: map[string]*ChanSpec{}, Immutable: map[string]bool{}}
				cs.Types[key] = curT
			}
			curF, curL = nil, nil
		case "immutable":
			if curT == nil {
				cs.errf(ctx, c.line, "immutable outside type block")
				continue
			}
			for _, x := range strings.Split(rest, ",") {
				curT.Immutable[strings.TrimSpace(x)] = true
			}
		case "tracks":
			// tracks <counter field> by <ghost field>
			fs := strings.Fields(rest)
			if curT == nil || len(fs) != 3 || fs[1] != "by" {
				cs.errf(ctx, c.line, "bad tracks clause: want `tracks field by ghostfield` inside a type block")
				continue
			}
			if curT.Tracks == nil {
				curT.Tracks = map[string]string{}
			}
			curT.Tracks[fs[0]] = fs[2]
		case "lock":
			if curT == nil {
				cs.errf(ctx, c.line, "lock outside type block")
				continue
			}
			fs := strings.SplitN(rest, "protects", 2)
			ls := &LockSpec{Field: strings.TrimSpace(fs[0])}
			if len(fs) == 2 {
				for _, x := range strings.Split(fs[1], ",") {
					ls.Protects = append(ls.Protects, strings.TrimSpace(x))
				}
			}
			curT.Locks[ls.Field] = ls
		case "shared":
			if curT == nil {
				cs.errf(ctx, c.line, "shared outside type block")
				continue
			}
			// shared f, g stable P            P is proved at every write / close / atomic store
			// shared f, g assumed-stable P    P is assumed (listed among the unchecked assumptions)
			assumed := strings.Contains(rest, "assumed-stable")
			rest = strings.Replace(rest, "assumed-stable", "stable", 1)
			fs := strings.SplitN(rest, "stable", 2)
			var cl *Clause
			if len(fs) == 2 {
				cl = mk("stable", strings.TrimSpace(fs[1]), nil)
				if assumed {
					cl.Kind = "assumed-stable"
					cs.Assumed = append(cs.Assumed, fmt.Sprintf("%s: shared %s assumed-stable %s", curT.Key, strings.TrimSpace(fs[0]), strings.TrimSpace(fs[1])))
				}
			}
			for _, x := range strings.Split(fs[0], ",") {
				curT.Shared[strings.TrimSpace(x)] = cl
			}
		case "ghost":
			if curT == nil {
				cs.errf(ctx, c.line, "ghost outside type block")
				continue
			}
			fs := strings.Fields(rest)
			if len(fs) == 2 {
				e, err := ParseCType(fs[1])
				if err != nil {
					cs.errf(ctx, c.line, "%v", err)
					continue
				}
				curT.Ghost = append(curT.Ghost, QVar{fs[0], e})
			}
		case "chanmsg":
			// chanmsg <elem type> (v) [noclose]: <expr>
			noclose := false
			if k := strings.Index(rest, ") noclose:"); k >= 0 {
				noclose = true
				rest = rest[:k+1] + rest[k+len(") noclose"):]
			}
			i := strings.Index(rest, "(")
			j := strings.Index(rest, "):")
			if i < 0 || j < i {
				cs.errf(ctx, c.line, "bad chanmsg: want `chanmsg T (v): expr`")
				continue
			}
			ct, err := ParseCType(strings.TrimSpace(rest[:i]))
			if err != nil {
				cs.errf(ctx, c.line, "%v", err)
				continue
			}
			t := strings.TrimSpace(rest[j+2:])
			e, err := ParseCExpr(t)
			if err != nil {
				cs.errf(ctx, c.line, "%v", err)
				continue
			}
			cs.ChanMsgs = append(cs.ChanMsgs, &ChanSpec{NoClose: noclose, Elem: ct, Path: strings.TrimSpace(rest[:i]), Var: strings.TrimSpace(rest[i+1 : j]),
				Msg: &Clause{Kind: "chan-msg", Expr: e, Text: t, File: ctx.File, Line: c.line, Ctx: ctx}})
			curF, curL, curT = nil, nil, nil
		case "chan":
			if curT == nil {
				cs.errf(ctx, c.line, "chan outside type block")
				continue
			}
			cs.parseChan(ctx, curT, c.line, rest)
		case "interface", "func":
			tags, hdr := splitTagsTail(rest)
			key, disp, err := cs.funcKey(ctx, hdr, w == "interface")
			if err != nil {
				cs.errf(ctx, c.line, "%v", err)
				curF = nil
				continue
			}
			if old, ok := cs.Funcs[key]; ok {
				cs.errf(ctx, c.line, "duplicate contract for %s (first at %s:%d)", key, old.Ctx.File, old.Line)
			}
			curF = &FuncSpec{Key: key, Display: disp, Tags: tags, Ctx: ctx, Line: c.line, Loops: map[string]*LoopSpec{}, IsIface: w == "interface", Trusted: trusted}
			cs.Funcs[key] = curF
			curL, curT = nil, nil
		case "requires", "ensures", "assert", "captured":
			if curF == nil {
				cs.errf(ctx, c.line, "%s outside func", w)
				continue
			}
			tags, text := splitTags(rest)
			cl := mk(w, text, tags)
			if cl == nil {
				continue
			}
			switch w {
			case "requires":
				curF.Requires = append(curF.Requires, cl)
			case "captured":
				// a precondition of a closure over its captured variables: assumed at the closure's
				// entry, proved where the closure is created (fragment.go)
				curF.Requires = append(curF.Requires, cl)
				curF.Captured = append(curF.Captured, cl)
			case "ensures":
				curF.Ensures = append(curF.Ensures, cl)
			case "assert":
				curF.Asserts = append(curF.Asserts, cl)
			}
			curL = nil
		case "relational":
			if curF == nil {
				cs.errf(ctx, c.line, "relational outside func")
				continue
			}
			rest = strings.TrimSpace(strings.TrimPrefix(rest, "ensures"))
			tags, text := splitTags(rest)
			if cl := mk("relational", text, tags); cl != nil {
				curF.Relational = append(curF.Relational, cl)
			}
		case "modifies":
			if curF == nil {
				cs.errf(ctx, c.line, "modifies outside func")
				continue
			}
			curF.HasMod = true
			if rest == "nothing" {
				continue
			}
			if rest == "*" {
				curF.ModAll = true
				continue
			}
			for _, part := range splitTop(rest) {
				e, err := ParseCExpr(part)
				if err != nil {
					cs.errf(ctx, c.line, "%v", err)
					continue
				}
				curF.Modifies = append(curF.Modifies, e)
			}
		case "preserves":
			if curF == nil {
				cs.errf(ctx, c.line, "preserves outside func")
				continue
			}
			for _, part := range splitTop(rest) {
				e, err := ParseCExpr(part)
				if err != nil {
					cs.errf(ctx, c.line, "%v", err)
					continue
				}
				curF.Preserves = append(curF.Preserves, e)
			}
		case "havoc":
			if curF != nil {
				for _, x := range strings.Split(rest, ",") {
					curF.Havoc = append(curF.Havoc, strings.TrimSpace(x))
				}
			}
		case "panics":
			if curF == nil {
				continue
			}
			rest = strings.TrimSpace(strings.TrimPrefix(rest, "when"))
			curF.Panics = mk("panics", rest, nil)
		case "decreases":
			cl := mk("decreases", rest, nil)
			if curL != nil {
				curL.Decr = cl
			} else if curF != nil {
				// function-level variant: not used for now
			}
		case "wraparound":
			if curF != nil {
				curF.WrapSigned = true
			}
		case "never":
			// never[TAGS] L1, L2: no feasible path of the function — through a loop body or not —
			// logs a call / channel operation labelled L (ensures clauses only see the events of
			// the last iteration on their path)
			if curF != nil {
				tags, text := splitTags(rest)
				for _, l := range strings.Split(text, ",") {
					if l = strings.TrimSpace(l); l != "" {
						curF.Never = append(curF.Never, &Clause{Kind: "never", Tags: tags, Text: l, File: ctx.File, Line: c.line, Ctx: ctx})
					}
				}
			}
		case "pure":
			if curF != nil {
				curF.Pure = true
			}
		case "nobody":
			if curF != nil {
				curF.NoBody = true
			}
		case "trusted":
			if curF != nil {
				curF.Trusted = true
			}
		case "source":
			if curF != nil {
				curF.Source = rest
			}
		case "params":
			if curF != nil {
				for _, x := range strings.Split(rest, ",") {
					curF.Params = append(curF.Params, strings.TrimSpace(x))
				}
			}
		case "log":
			if curF != nil {
				curF.Log = rest
			}
		case "logs":
			if curF != nil {
				for _, x := range strings.Split(rest, ",") {
					curF.Logs = append(curF.Logs, strings.TrimSpace(x))
				}
			}
		case "creates":
			if curF != nil {
				curF.Creates = append(curF.Creates, rest)
			}
		case "consumes":
			if curF != nil {
				curF.Consumes = append(curF.Consumes, rest)
			}
		case "holds":
			if curF != nil {
				for _, x := range strings.Split(rest, ",") {
					curF.Holds = append(curF.Holds, strings.TrimSpace(x))
				}
			}
		case "waitset":
			if curF != nil {
				for _, part := range splitTop(rest) {
					e, err := ParseCExpr(part)
					if err != nil {
						cs.errf(ctx, c.line, "%v", err)
						continue
					}
					curF.WaitSet = append(curF.WaitSet, e)
				}
			}
		case "loop":
			if curF == nil {
				cs.errf(ctx, c.line, "loop outside func")
				continue
			}
			k := strings.TrimSuffix(strings.TrimSpace(rest), ":")
			if i := strings.Index(k, "("); i >= 0 {
				k = strings.TrimSpace(k[:i])
			}
			curL = &LoopSpec{Key: k}
			curF.Loops[k] = curL
		case "entry", "exit":
			if curL == nil {
				cs.errf(ctx, c.line, w+" outside loop")
				continue
			}
			tags, text := splitTags(rest)
			if cl := mk(w, text, tags); cl != nil {
				if w == "entry" {
					curL.Entry = append(curL.Entry, cl)
				} else {
					curL.Exit = append(curL.Exit, cl)
				}
			}
		case "each":
			if curL == nil {
				cs.errf(ctx, c.line, "each outside loop")
				continue
			}
			tags, text := splitTags(rest)
			if cl := mk("each", text, tags); cl != nil {
				curL.Body = append(curL.Body, cl)
			}
		case "invariant":
			if curL != nil {
				tags, text := splitTags(rest)
				if cl := mk("invariant", text, tags); cl != nil {
					curL.Invs = append(curL.Invs, cl)
				}
			} else if curT != nil {
				// "invariant mu: expr" or plain
				if i := strings.Index(rest, ":"); i > 0 && isIdent(strings.TrimSpace(rest[:i])) {
					name := strings.TrimSpace(rest[:i])
					if ls, ok := curT.Locks[name]; ok {
						if cl := mk("lock-inv", strings.TrimSpace(rest[i+1:]), nil); cl != nil {
							ls.Inv = append(ls.Inv, cl)
						}
						continue
					}
				}
				if cl := mk("type-inv", rest, nil); cl != nil {
					curT.Invs = append(curT.Invs, cl)
				}
			} else {
				cs.errf(ctx, c.line, "invariant outside loop/type")
			}
		}
	}
}

func isIdent(s string) bool {
	if s == "" {
		return false
	}
	for i := 0; i < len(s); i++ {
		if !(isIdStart(s[i]) || (i > 0 && s[i] >= '0' && s[i] <= '9')) {
			return false
		}
	}
	return true
}

func ParseCType(s string) (t *CType, err error) {
	if strings.ReplaceAll(s, " ", "") == "struct{}" {
		return &CType{Kind: "emptystruct"}, nil
	}
	ts, err := lexC(s)
	if err != nil {
		return nil, err
	}
	p := &clex{src: s, toks: ts}
	defer func() {
		if r := recover(); r != nil {
			if pe, ok := r.(parseErr); ok {
				err = fmt.Errorf("%s", string(pe))
				return
			}
			panic(r)
		}
	}()
	return p.ctype(), nil
}

func splitTagsTail(s string) ([]string, string) {
	s = strings.TrimSpace(s)
	if i := strings.LastIndex(s, "["); i >= 0 && strings.HasSuffix(s, "]") {
		if tags, rest := splitTags(s[i:]); tags != nil && rest == "" {
			return tags, strings.TrimSpace(s[:i])
		}
	}
	return nil, s
}

func splitTop(s string) []string {
	var out []string
	d := 0
	st := 0
	for i := 0; i < len(s); i++ {
		switch s[i] {
		case '(', '[':
			d++
		case ')', ']':
			d--
		case ',':
			if d == 0 {
				out = append(out, strings.TrimSpace(s[st:i]))
				st = i + 1
			}
		}
	}
	if strings.TrimSpace(s[st:]) != "" {
		out = append(out, strings.TrimSpace(s[st:]))
	}
	return out
}

func firstWord(s string) string {
	for i := 0; i < len(s); i++ {
		c := s[i]
		if !((c >= 'a' && c <= 'z') || c == '-') {
			return s[:i]
		}
	}
	return s
}

func (cs *Contracts) errf(ctx *FileCtx, line int, f string, a ...interface{}) {
	cs.Errors = append(cs.Errors, fmt.Sprintf("%s:%d: %s", ctx.File, line, fmt.Sprintf(f, a...)))
}

// qualify "Name" or "alias.Name" into "importpath.Name".
func (cs *Contracts) qualify(ctx *FileCtx, name string) string {
	if i := strings.Index(name, "."); i >= 0 {
		alias := name[:i]
		if p, ok := ctx.Imports[alias]; ok {
			return p + "." + name[i+1:]
		}
		return name
	}
	if ctx.PkgPath != "" {
		return ctx.PkgPath + "." + name
	}
	return name
}

var recvRe = regexp.MustCompile(`^\(\s*(?:[A-Za-z_][A-Za-z0-9_]*\s+)?(\*?)\s*([A-Za-z_][A-Za-z0-9_.]*)(?:\[[^\]]*\])?\s*\)\s*(.+)$`)

// funcKey computes the canonical key of a function header.
//   func (list *List) Contains     -> (*pkg.List).Contains
//   func getMsgKey                 -> pkg.getMsgKey
//   func io.ReadFull               -> io.ReadFull
//   func (*Forward) exchange$1     -> (*pkg.Forward).exchange$1
//   interface dns.RR.Header        -> iface:github.com/miekg/dns.RR.Header
//   func var pool.GetBuf           -> var:pkg/pool.GetBuf
func (cs *Contracts) funcKey(ctx *FileCtx, hdr string, iface bool) (string, string, error) {
	hdr = strings.TrimSpace(hdr)
	if i := strings.Index(hdr, "("); i > 0 {
		// strip a parameter list if someone wrote one after the name
		if !strings.HasPrefix(hdr, "(") {
			hdr = strings.TrimSpace(hdr[:i])
		}
	}
	if iface {
		i := strings.LastIndex(hdr, ".")
		if i < 0 {
			return "", "", fmt.Errorf("interface contract needs Type.Method: %q", hdr)
		}
		return "iface:" + cs.qualify(ctx, hdr[:i]) + "." + hdr[i+1:], hdr, nil
	}
	if strings.HasPrefix(hdr, "fieldfn:") {
		// fieldfn:Type.field — calls of a func-typed struct field of a type of this package
		return "fieldfn:" + ctx.PkgPath + "." + strings.TrimPrefix(hdr, "fieldfn:"), hdr, nil
	}
	if strings.HasPrefix(hdr, "var ") {
		n := strings.TrimSpace(hdr[4:])
		return "var:" + cs.qualify(ctx, n), n, nil
	}
	if m := recvRe.FindStringSubmatch(hdr); m != nil {
		star, tn, name := m[1], m[2], strings.TrimSpace(m[3])
		if i := strings.IndexAny(name, " ("); i > 0 {
			name = name[:i]
		}
		q := cs.qualify(ctx, tn)
		if star == "*" {
			return cs.unalias("(*" + q + ")." + name), hdr, nil
		}
		return cs.unalias("(" + q + ")." + name), hdr, nil
	}
	name := hdr
	if i := strings.IndexAny(name, " ("); i > 0 {
		name = name[:i]
	}
	if strings.HasPrefix(name, "paramfn:") {
		// paramfn:<closure or function>.<parameter>
		if j := strings.LastIndex(name, "."); j > 0 {
			fn := name[len("paramfn:"):j]
			if a, ok := cs.Alias[fn]; ok {
				name = "paramfn:" + a + name[j:]
			}
		}
		return cs.qualify(ctx, name), hdr, nil
	}
	return cs.unalias(cs.qualify(ctx, name)), hdr, nil
}

// unalias resolves a stable closure name (alias.go) to the positional key go/ssa uses.
func (cs *Contracts) unalias(key string) string {
	if a, ok := cs.Alias[key]; ok {
		return a
	}
	return key
}

func (cs *Contracts) parseSpecFunc(ctx *FileCtx, line int, rest string) {
	rest = strings.TrimSpace(strings.TrimPrefix(rest, "func"))
	i := strings.Index(rest, "(")
	if i < 0 {
		cs.errf(ctx, line, "bad spec func")
		return
	}
	name := strings.TrimSpace(rest[:i])
	// find matching paren
	d := 0
	j := i
	for ; j < len(rest); j++ {
		if rest[j] == '(' {
			d++
		} else if rest[j] == ')' {
			d--
			if d == 0 {
				break
			}
		}
	}
	if j >= len(rest) {
		cs.errf(ctx, line, "bad spec func params")
		return
	}
	ps := rest[i+1 : j]
	tail := strings.TrimSpace(rest[j+1:])
	var body string
	if k := strings.Index(tail, "="); k >= 0 && !strings.HasPrefix(tail[k:], "==") {
		body = strings.TrimSpace(tail[k+1:])
		tail = strings.TrimSpace(tail[:k])
	}
	sf := &SpecFunc{Name: name, Ctx: ctx}
	for _, p := range splitTop(ps) {
		fs := strings.Fields(p)
		if len(fs) != 2 {
			cs.errf(ctx, line, "bad spec param %q", p)
			return
		}
		t, err := ParseCType(fs[1])
		if err != nil {
			cs.errf(ctx, line, "%v", err)
			return
		}
		sf.Params = append(sf.Params, QVar{fs[0], t})
	}
	t, err := ParseCType(tail)
	if err != nil {
		cs.errf(ctx, line, "spec func %s: bad return type %q", name, tail)
		return
	}
	sf.Ret = t
	if body != "" {
		e, err := ParseCExpr(body)
		if err != nil {
			cs.errf(ctx, line, "%v", err)
			return
		}
		sf.Body = e
	}
	if _, dup := cs.Specs[name]; dup {
		cs.errf(ctx, line, "duplicate spec func %s", name)
	}
	cs.Specs[name] = sf
}

func (cs *Contracts) parseAbstract(ctx *FileCtx, line int, rest string) {
	rest = strings.TrimSpace(strings.TrimPrefix(rest, "type"))
	i := strings.Index(rest, "{")
	j := strings.LastIndex(rest, "}")
	if i < 0 || j < i {
		cs.errf(ctx, line, "bad abstract type")
		return
	}
	name := strings.TrimSpace(rest[:i])
	q := cs.qualify(ctx, name)
	k := strings.LastIndex(q, ".")
	at := &AbstractType{Path: q[:k], Name: q[k+1:]}
	for _, f := range strings.Split(rest[i+1:j], ";") {
		fs := strings.Fields(f)
		if len(fs) == 0 {
			continue
		}
		if len(fs) != 2 {
			cs.errf(ctx, line, "bad abstract field %q", f)
			return
		}
		t, err := ParseCType(fs[1])
		if err != nil {
			cs.errf(ctx, line, "%v", err)
			return
		}
		at.Fields = append(at.Fields, QVar{fs[0], t})
	}
	cs.Abstract[q] = at
}

func (cs *Contracts) parseChan(ctx *FileCtx, ts *TypeSpec, line int, rest string) {
	// chan path : [cap >= n ;] msg(v): expr
	i := strings.Index(rest, ":")
	if i < 0 {
		cs.errf(ctx, line, "bad chan spec")
		return
	}
	c := &ChanSpec{Path: strings.TrimSpace(rest[:i])}
	body := strings.TrimSpace(rest[i+1:])
	for _, part := range strings.Split(body, ";") {
		part = strings.TrimSpace(part)
		if strings.HasPrefix(part, "cap") {
			fmt.Sscanf(strings.TrimSpace(strings.TrimPrefix(strings.TrimSpace(strings.TrimPrefix(part, "cap")), ">=")), "%d", &c.CapMin)
		} else if strings.HasPrefix(part, "msg(") {
			j := strings.Index(part, ")")
			c.Var = strings.TrimSpace(part[4:j])
			t := strings.TrimSpace(strings.TrimPrefix(strings.TrimSpace(part[j+1:]), ":"))
			e, err := ParseCExpr(t)
			if err != nil {
				cs.errf(ctx, line, "%v", err)
				return
			}
			c.Msg = &Clause{Kind: "chan-inv", Expr: e, Text: t, File: ctx.File, Line: line, Ctx: ctx}
		}
	}
	ts.Chans[c.Path] = c
}

func (cs *Contracts) FuncKeys() []string {
	var ks []string
	for k := range cs.Funcs {
		ks = append(ks, k)
	}
	sort.Strings(ks)
	return ks
}

// HasTag reports whether the function or any of its clauses carries the property tag.
func (f *FuncSpec) HasTag(p string) bool {
	for _, t := range f.Tags {
		if t == p {
			return true
		}
	}
	for _, cl := range f.Ensures {
		for _, t := range cl.Tags {
			if t == p {
				return true
			}
		}
	}
	return false
}

// isSlow: the clause is marked [slow]: its obligations are proved in the thorough tier only (the
// quick tier still assumes the clause wherever it is an assumption).
func isSlow(cl *Clause) bool {
	if cl == nil {
		return false
	}
	for _, t := range cl.Tags {
		if t == "slow" {
			return true
		}
	}
	return false
}

func clauseHasTag(fs *FuncSpec, cl *Clause, p string) bool {
	nprop := 0
	if cl != nil {
		for _, t := range cl.Tags {
			if t != "slow" {
				nprop++
			}
		}
	}
	if cl != nil && nprop > 0 {
		for _, t := range cl.Tags {
			if t == p {
				return true
			}
		}
		return false
	}
	for _, t := range fs.Tags {
		if t == p {
			return true
		}
	}
	return false
}
