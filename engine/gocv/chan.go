package gocv

import (
	"fmt"
	"go/types"

	"golang.org/x/tools/go/ssa"
)

// Channels, thread-modular.
//
// A channel is an opaque reference with two timeless attributes:
//   chan!cap(c)        its capacity (fixed by make)
//   chan!closedEver(c) "c has been closed at some moment up to now" — only ever assumed
//                      positively (after a receive that reported closed, after our own close),
//                      which is sound because a closed channel stays closed.
// Message invariants (`chanmsg T (v): P(v)`) are per package and element type: every send of
// the package's functions under contract proves P, every receive that delivers a message
// assumes it. Every operation is recorded in the path's call log so that contracts can speak
// about it:
//   chanSend(ch, v)            a send that was performed (blocking, or the chosen select case)
//   chanRecv(ch) -> (v, ok)    a receive that was performed
//   pollFull(ch, v)            a non-blocking send that found no room (default taken)
//   pollEmpty(ch)              a non-blocking receive that found nothing (default taken)
//   chanClose(ch)
// What other threads do to a channel is never assumed: a receive returns an arbitrary message
// satisfying the invariant (or closed), a select may take any case whose channel is non-nil.

const fChanCap = "|chan!cap|"
const fChanClosed = "|chan!closedEver|"

func (E *Engine) chanDecls() {
	E.declare(fChanCap, "(Int) Int")
	E.declare(fChanClosed, "(Int) Bool")
}

func (E *Engine) chanCall(st *State, in ssa.Instruction, key string, cc *ssa.CallCommon, args []*Val, res ssa.Value) ([]*State, bool) {
	return nil, false
}

func (E *Engine) chanClosed(h map[string]string, c *Val) string {
	E.chanDecls()
	return sx(fChanClosed, c.S)
}

func (E *Engine) chanCap(c *Val) string {
	E.chanDecls()
	return sx(fChanCap, c.S)
}

func chanElem(T types.Type) types.Type {
	if c, ok := types.Unalias(T).Underlying().(*types.Chan); ok {
		return c.Elem()
	}
	return nil
}

// chanMsgSpec finds the message invariant declared for channels of this element type in the
// package of the function under verification.
func (E *Engine) chanMsgSpec(elem types.Type) *ChanSpec {
	if E.cur == nil || E.cur.fn == nil || E.cur.fn.Pkg == nil {
		return nil
	}
	if E.chanMsgs == nil {
		E.chanMsgs = map[string]*ChanSpec{}
		for _, cs := range E.CS.ChanMsgs {
			T, ok := E.tryResolve(cs.Msg.Ctx, cs.Elem)
			if !ok {
				// a type declared inside a function: go/types prints it as pkgpath.Name too
				E.chanMsgs[cs.Msg.Ctx.PkgPath+"|"+cs.Msg.Ctx.PkgPath+"."+cs.Path] = cs
				continue
			}
			E.chanMsgs[cs.Msg.Ctx.PkgPath+"|"+typeKey(T)] = cs
		}
	}
	return E.chanMsgs[E.cur.fn.Pkg.Pkg.Path()+"|"+typeKey(elem)]
}

func (E *Engine) chanMsgFormula(st *State, cs *ChanSpec, ch, v *Val, goal bool) string {
	vars := map[string]*Val{cs.Var: v, "ch": ch}
	ev := &cenv{E: E, st: st, vars: vars, heap: st.heap, ctx: cs.Msg.Ctx, fc: E.cur, goal: goal}
	return ev.evalBool(cs.Msg.Expr)
}

// recvValue: the value a receive on ch yields: (v, ok). ok is unconstrained; !ok means closed
// and drained: the zero value. ok means a message: the invariant holds.
func (E *Engine) recvValue(st *State, ch *Val) (*Val, *Val) {
	E.chanDecls()
	elem := chanElem(ch.T)
	var facts []string
	fv := E.freshVal(elem, "recv", &facts)
	st.assume(facts...)
	st.assume(E.allocFacts(st, fv)...)
	E.assumeTypeInvs(st, fv)
	ok := E.freshConst("recvok", SBool)
	if cs := E.chanMsgSpec(elem); cs != nil {
		st.assume(sx("=>", ok, E.chanMsgFormula(st, cs, ch, fv, false)))
		if cs.NoClose {
			st.assume(ok)
		}
	}
	st.assume(sx("=>", not(ok), sx(fChanClosed, ch.S)))
	v := E.iteVal(ok, fv, E.zeroVal(elem))
	return v, boolVal(ok)
}

func (E *Engine) logChan(st *State, label string, args []*Val, res *Val) {
	h := copyHeap(st.heap)
	st.log = append(st.log, CallEvent{Label: label, Args: args, Res: res, Heap: h, HeapAfter: h})
}

func (E *Engine) sendCheck(st *State, in ssa.Instruction, ch, v *Val) {
	if cs := E.chanMsgSpec(chanElem(ch.T)); cs != nil && E.dry == 0 {
		f := E.chanMsgFormula(st, cs, ch, v, true)
		E.oblige(st, "chan-msg", E.site(in), f, "message sent satisfies the channel's invariant: "+cs.Msg.Text, E.pos(in), cs.Msg)
	}
}

func (E *Engine) doSelect(st *State, x *ssa.Select) []*State {
	E.chanDecls()
	tup := x.Type().(*types.Tuple)
	type cse struct {
		ch, send *Val
		dir      types.ChanDir
		slot     int // index of the received value in the result tuple (recv cases)
	}
	var cases []cse
	slot := 2
	for _, s := range x.States {
		c := cse{ch: E.val(st, s.Chan), dir: s.Dir}
		if s.Dir == types.SendOnly {
			c.send = E.val(st, s.Send)
		} else {
			c.slot = slot
			slot++
		}
		cases = append(cases, c)
	}
	mk := func(n *State, idx int, ok *Val, got *Val, gotSlot int) {
		t := &Val{T: tup, F: make([]*Val, tup.Len())}
		t.F[0] = &Val{T: tInt, S: intLit(int64(idx)), Sort: SInt}
		if ok == nil {
			ok = boolVal("false")
		}
		t.F[1] = ok
		for i := 2; i < tup.Len(); i++ {
			if i == gotSlot {
				t.F[i] = got
			} else {
				t.F[i] = E.zeroVal(tup.At(i).Type())
			}
		}
		n.regs[x] = t
	}
	var out []*State
	for i, c := range cases {
		n := st.clone()
		// a nil channel is never ready
		n.assume(not(eq(c.ch.S, "0")))
		if c.dir == types.SendOnly {
			E.sendCheck(n, x, c.ch, c.send)
			E.logChan(n, "chanSend", []*Val{c.ch, c.send}, nil)
			mk(n, i, nil, nil, -1)
		} else {
			v, ok := E.recvValue(n, c.ch)
			E.logChan(n, "chanRecv", []*Val{c.ch}, &Val{T: types.NewTuple(), F: []*Val{v, ok}})
			mk(n, i, ok, v, c.slot)
		}
		out = append(out, n)
	}
	if !x.Blocking {
		n := st.clone()
		for _, c := range cases {
			if c.dir == types.SendOnly {
				E.logChan(n, "pollFull", []*Val{c.ch, c.send}, nil)
			} else {
				E.logChan(n, "pollEmpty", []*Val{c.ch}, nil)
			}
		}
		mk(n, -1, nil, nil, -1)
		out = append(out, n)
	}
	if len(out) == 0 {
		// select {} blocks forever
		st.assume("false")
		return []*State{}
	}
	return out
}

func (E *Engine) doSend(st *State, x *ssa.Send) []*State {
	E.chanDecls()
	ch := E.val(st, x.Chan)
	v := E.val(st, x.X)
	// a send on a nil channel blocks forever: the continuation is unreachable
	st.assume(not(eq(ch.S, "0")))
	E.escapeVal(st, v)
	E.sendCheck(st, x, ch, v)
	E.logChan(st, "chanSend", []*Val{ch, v}, nil)
	return nil
}

func (E *Engine) doRecv(st *State, x *ssa.UnOp, ch *Val) []*State {
	E.chanDecls()
	st.assume(not(eq(ch.S, "0")))
	v, ok := E.recvValue(st, ch)
	E.logChan(st, "chanRecv", []*Val{ch}, &Val{T: types.NewTuple(), F: []*Val{v, ok}})
	if x.CommaOk {
		st.regs[x] = &Val{T: x.Type(), F: []*Val{v, ok}}
	} else {
		st.regs[x] = v
	}
	return nil
}

func (E *Engine) makeChan(st *State, x *ssa.MakeChan) *Val {
	E.chanDecls()
	ref := E.newObject(st, "chan")
	sz := E.val(st, x.Size)
	if E.dry == 0 {
		E.oblige(st, "make-chan-size", E.site(x), sx(">=", sz.S, "0"), "channel size is not negative", E.pos(x), nil)
	}
	st.assume(eq(sx(fChanCap, ref), sz.S))
	return &Val{T: x.Type(), S: ref, Sort: SInt}
}

// chanClose: close(c). Closing a nil channel panics; closing twice panics too, which is not
// provable thread-modularly in general: it is an obligation only when the function's contract
// asks for it (`requires !closed(c)` style clauses are the caller's business), otherwise a note.
func (E *Engine) chanClose(st *State, in ssa.Instruction, c *Val) {
	E.chanDecls()
	if E.dry == 0 {
		E.oblige(st, "nil", E.site(in)+".close", not(eq(c.S, "0")), "close of a non-nil channel", E.pos(in), nil)
	}
	if cs := E.chanMsgSpec(chanElem(c.T)); cs != nil && cs.NoClose && E.dry == 0 {
		E.oblige(st, "chan-noclose", E.site(in), "false", "channels carrying "+cs.Path+" are declared never closed in this package", E.pos(in), cs.Msg)
	}
	st.assume(sx(fChanClosed, c.S))
	E.logChan(st, "chanClose", []*Val{c}, nil)
	E.sharedStableCheckAll(st, in, fmt.Sprintf("close#%s", E.site(in)))
}
