package gocv

import (
	"golang.org/x/tools/go/ssa"
)

// Channel support (filled in for the concurrency properties).

func (E *Engine) chanCall(st *State, in ssa.Instruction, key string, cc *ssa.CallCommon, args []*Val, res ssa.Value) ([]*State, bool) {
	return nil, false
}

func (E *Engine) chanClosed(h map[string]string, c *Val) string {
	a := E.heapArrSort(h, "chan!closed", "(Array Int Bool)")
	return sx("select", a, c.S)
}

func (E *Engine) doSelect(st *State, x *ssa.Select) []*State {
	panic(engineErr("select not supported yet"))
}

func (E *Engine) doSend(st *State, x *ssa.Send) []*State {
	panic(engineErr("send not supported yet"))
}

func (E *Engine) doRecv(st *State, x *ssa.UnOp, ch *Val) []*State {
	panic(engineErr("receive not supported yet"))
}

func (E *Engine) makeChan(st *State, x *ssa.MakeChan) *Val {
	panic(engineErr("make(chan) not supported yet"))
}

func (E *Engine) chanClose(st *State, in ssa.Instruction, c *Val) {
	panic(engineErr("close not supported yet"))
}
