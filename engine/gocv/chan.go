package gocv

import (
	"golang.org/x/tools/go/ssa"
)

// Channel support (filled in for the concurrency properties).

func (E *Engine) chanCall(st *State, in ssa.Instruction, key string, cc *ssa.CallCommon, args []*Val, res ssa.Value) ([]*State, bool) {
	return nil, false
}

func (E *Engine) chanClosed(h map[string]string, c *Val) string {
	a := E.heapArrSort(h, "chan!closed", "(Array Int Bool)")
	return sx("select", a, c.S)
}

func (E *Engine) doSelect(st *State, x *ssa.Select) []*State {
	panic(engineErr("select not supported yet"))
}

func (E *Engine) doSend(st *State, x *ssa.Send) []*State {
	panic(engineErr("send not supported yet"))
}

func (E *Engine) doRecv(st *State, x *ssa.UnOp, ch *Val) []*State {
	panic(engineErr("receive not supported yet"))
}

func (E *Engine) makeChan(st *State, x *ssa.MakeChan) *Val {
	ref := E.newObject(st, "chan")
	sz := E.val(st, x.Size)
	capA := E.heapArrSort(st.heap, "chan!cap", "(Array Int Int)")
	st.heap["chan!cap"] = sx("store", capA, ref, sz.S)
	clA := E.heapArrSort(st.heap, "chan!closed", "(Array Int Bool)")
	st.heap["chan!closed"] = sx("store", clA, ref, "false")
	return &Val{T: x.Type(), S: ref, Sort: SInt}
}

func (E *Engine) chanClose(st *State, in ssa.Instruction, c *Val) {
	panic(engineErr("close not supported yet"))
}
