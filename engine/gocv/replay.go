package gocv

// runReplay maps a solver model onto the property's replay driver and runs it
// against the real code. It returns true when the driver confirms the failure.
func runReplay(o CheckOpts, replayFile string) bool {
	return ReplayFile(o.RepoDir, o.VerifDir, replayFile, false)
}
