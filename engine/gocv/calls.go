package gocv

import (
	"fmt"
	"os"
	"go/types"
	"sort"
	"strings"

	"golang.org/x/tools/go/ssa"
)

func add(a, b string) string {
	ca, oka := isConstTerm(a)
	cb, okb := isConstTerm(b)
	if oka && okb {
		return bigLit(ca.Add(ca, cb))
	}
	if oka && ca.Sign() == 0 {
		return b
	}
	if okb && cb.Sign() == 0 {
		return a
	}
	return sx("+", a, b)
}

func sub(a, b string) string {
	ca, oka := isConstTerm(a)
	cb, okb := isConstTerm(b)
	if oka && okb {
		return bigLit(ca.Sub(ca, cb))
	}
	if okb && cb.Sign() == 0 {
		return a
	}
	if a == b {
		return "0"
	}
	return sx("-", a, b)
}

const fAt = "|at|"

// at(off, k): index of element k of a slice window starting at off. An
// uninterpreted wrapper (axiom: at(o,k) = o+k) so that quantifier patterns over
// element reads contain no interpreted arithmetic.
func (E *Engine) at(off, k string) string {
	if off == "0" {
		return k
	}
	if os.Getenv("GOCV_AT") == "" {
		return add(off, k)
	}
	if !E.specDecl["at"] {
		E.specDecl["at"] = true
		E.declare(fAt, "(Int Int) Int")
		E.axioms = append(E.axioms, axiom{Name: "at", Trigger: []string{fAt}, Body: "(forall ((o Int) (k Int)) (! (= (|at| o k) (+ o k)) :pattern ((|at| o k))))"})
	}
	return sx(fAt, off, k)
}

func le(a, b string) string {
	ca, oka := isConstTerm(a)
	cb, okb := isConstTerm(b)
	if oka && okb {
		if ca.Cmp(cb) <= 0 {
			return "true"
		}
		return "false"
	}
	return sx("<=", a, b)
}

const epochKey = "\x00epoch"

func (E *Engine) havocAll(st *State, why string) {
	E.note("havoc of the whole heap: %s", why)
	held := E.heldProtected(st)
	pcells := E.privKeep(st)
	defer func() { E.privRestore(st, pcells) }()
	type keepCell struct{ comp, ref, val, sort string }
	var cells []keepCell
	for _, h := range held {
		srt, ok := E.cur.compSort[h[0]]
		if !ok {
			continue
		}
		if _, touched := st.heap[h[0]]; !touched {
			continue
		}
		cells = append(cells, keepCell{h[0], h[1], sx("select", st.heap[h[0]], h[1]), srt})
	}
	defer func() {
		for _, c := range cells {
			a := E.heapArrSort(st.heap, c.comp, c.sort)
			st.heap[c.comp] = sx("store", a, c.ref, c.val)
		}
	}()
	ep := st.heap[epochKey]
	nh := map[string]string{epochKey: ep + "'"}
	for k, v := range st.heap {
		// cells of captured / escaping locals are private to the functions that declare
		// or capture them: an unknown callee cannot reach them
		if strings.HasPrefix(k, "var<") {
			nh[k] = v
		}
	}
	st.heap = nh
	defer func() { st.heap[allocKey] = st.alloc }()
	if st.written != nil {
		st.written["*"] = true
	}
	E.cur.touched["*"] = true
	na := E.freshConst("alloc", "(Array Int Bool)")
	r := E.freshName("r")
	st.assume(fmt.Sprintf("(forall ((%s Int)) (! (=> (select %s %s) (select %s %s)) :pattern ((select %s %s)) :pattern ((select %s %s))))", r, st.alloc, r, na, r, na, r, st.alloc, r))
	st.alloc = na
}

const keepKey = "\x00keep"

// havocAllPreserving: havoc of everything except the listed component families.
func (E *Engine) havocAllPreserving(st *State, why string, keep []string) {
	if len(keep) == 0 {
		E.havocAll(st, why)
		return
	}
	pre := st.heap
	oldEpoch := pre[epochKey]
	oldMarks := parseKeep(pre[keepKey])
	E.havocAll(st, why)
	marks := map[string]string{}
	for _, p := range keep {
		if e, ok := oldMarks[p]; ok {
			marks[p] = e
		} else {
			marks[p] = oldEpoch
		}
		for comp, t := range pre {
			if compHasPrefix(comp, p) {
				st.heap[comp] = t
			}
		}
	}
	var ps []string
	for p := range marks {
		ps = append(ps, p)
	}
	sort.Strings(ps)
	var sb []string
	for _, p := range ps {
		sb = append(sb, p+"="+marks[p])
	}
	st.heap[keepKey] = strings.Join(sb, ";")
}

func parseKeep(s string) map[string]string {
	m := map[string]string{}
	if s == "" {
		return m
	}
	for _, kv := range strings.Split(s, ";") {
		if i := strings.LastIndex(kv, "="); i >= 0 {
			m[kv[:i]] = kv[i+1:]
		}
	}
	return m
}

func (E *Engine) growAlloc(st *State) {
	na := E.freshConst("alloc", "(Array Int Bool)")
	r := E.freshName("r")
	st.assume(fmt.Sprintf("(forall ((%s Int)) (! (=> (select %s %s) (select %s %s)) :pattern ((select %s %s)) :pattern ((select %s %s))))", r, st.alloc, r, na, r, na, r, st.alloc, r))
	st.alloc = na
}

func (E *Engine) setResult(st *State, res ssa.Value, v *Val) {
	if res != nil && v != nil {
		st.regs[res] = retype(v, res.Type())
	}
}

func (E *Engine) doCall(st *State, in ssa.Instruction, cc *ssa.CallCommon, res ssa.Value) []*State {
	var args []*Val
	if cc.IsInvoke() {
		recv := E.val(st, cc.Value)
		if recv.F != nil {
			E.oblige(st, "nil", E.site(in), not(eq(recv.F[0].S, "0")), "interface receiver is not nil", E.pos(in), nil)
			st.assume(not(eq(recv.F[0].S, "0")))
		}
		args = append(args, recv)
		for _, a := range cc.Args {
			args = append(args, E.val(st, a))
		}
		for _, a := range args {
			E.escapeVal(st, a)
		}
		key := E.ifaceKey(cc)
		spec := E.CS.Funcs[key]
		if spec == nil {
			E.note("no interface contract for %s: havoc call", key)
			E.havocAll(st, "invoke "+key)
			var facts []string
			r := E.freshVal(cc.Signature().Results(), "r:"+cc.Method.Name(), &facts)
			st.assume(facts...)
			if cc.Signature().Results().Len() == 1 {
				r = r.F[0]
			}
			E.setResult(st, res, r)
			return nil
		}
		r := E.applySpec(st, in, spec, nil, cc.Signature(), args, nil, true)
		E.setResult(st, res, r)
		return nil
	}
	fnv := E.val(st, cc.Value)
	if fnv.LV != nil && fnv.Fn == nil {
		panic(engineErr("call through pointer"))
	}
	for _, a := range cc.Args {
		args = append(args, E.val(st, a))
	}
	if fnv.Fn == nil || !strings.HasPrefix(fnv.Fn.Key, "builtin:") {
		// whatever is handed to a callee may be kept or modified by it
		for _, a := range args {
			E.escapeVal(st, a)
		}
		E.escapeVal(st, fnv)
	}
	if fnv.Fn == nil {
		// unknown function value (parameter, field …)
		if hspec := E.funcValueSpec(st, cc.Value); hspec != nil {
			r := E.applySpec(st, in, hspec, nil, cc.Signature(), args, nil, false)
			E.setResult(st, res, r)
			return nil
		}
		E.note("call of unknown function value %s: havoc call", cc.Value.Name())
		E.havocAll(st, "call of function value")
		var facts []string
		r := E.freshVal(cc.Signature().Results(), "r:fv", &facts)
		st.assume(facts...)
		if cc.Signature().Results().Len() == 1 {
			r = r.F[0]
		}
		E.setResult(st, res, r)
		return nil
	}
	key := fnv.Fn.Key
	if strings.HasPrefix(key, "builtin:") {
		return E.builtin(st, in, key[8:], cc, args, res)
	}
	if alts, ok := E.concCall(st, in, key, cc, args, res); ok {
		return alts
	}
	spec := E.CS.Funcs[key]
	var callee *ssa.Function
	if f, ok := fnv.Fn.Fn.(*ssa.Function); ok {
		callee = f
	} else if f, ok := E.Funcs[key]; ok {
		callee = f
	}
	if _, plainCall := in.(*ssa.Call); plainCall && spec == nil && callee != nil && len(st.frames) < maxInlineDepth && E.inlinable(callee) {
		for _, fr := range st.frames {
			if fr.fn == callee {
				callee = nil // recursion
				break
			}
		}
		if callee != nil {
			ia := args
			if fnv.Fn.Recv != nil {
				ia = append([]*Val{fnv.Fn.Recv}, args...)
			}
			E.inlineCall(st, in, callee, ia, fnv.Fn.Bindings, res)
			return []*State{}
		}
	}
	if spec == nil {
		E.note("no contract for callee %s: havoc call", key)
		E.havocAll(st, "call "+key)
		var facts []string
		r := E.freshVal(cc.Signature().Results(), "r:"+shortKey(key), &facts)
		st.assume(facts...)
		if cc.Signature().Results().Len() == 1 {
			r = r.F[0]
		} else if cc.Signature().Results().Len() == 0 {
			r = nil
		}
		E.setResult(st, res, r)
		return nil
	}
	if fnv.Fn.Recv != nil {
		args = append([]*Val{fnv.Fn.Recv}, args...)
	}
	r := E.applySpec(st, in, spec, callee, cc.Signature(), args, fnv.Fn.Bindings, false)
	E.setResult(st, res, r)
	if E.pendingAtomic {
		E.pendingAtomic = false
		E.sharedStableCheckAll(st, in, "atomic#"+E.site(in))
	}
	return nil
}

func shortKey(k string) string {
	if i := strings.LastIndex(k, "/"); i >= 0 {
		return k[i+1:]
	}
	return k
}

func (E *Engine) ifaceKey(cc *ssa.CallCommon) string {
	// declared receiver interface of the method
	if sig, ok := cc.Method.Type().(*types.Signature); ok && sig.Recv() != nil {
		if k := namedKey(sig.Recv().Type()); k != "" {
			key := "iface:" + k + "." + cc.Method.Name()
			if _, ok := E.CS.Funcs[key]; ok {
				return key
			}
		}
	}
	k := namedKey(cc.Value.Type())
	if k == "" {
		k = typeKey(cc.Value.Type())
	}
	return "iface:" + k + "." + cc.Method.Name()
}

// funcValueSpec: contract for calls of func-typed struct fields / params, keyed
// "fieldfn:<pkg>.<Type>.<field>" — resolved from the defining FieldAddr load.
func (E *Engine) funcValueSpec(st *State, v ssa.Value) *FuncSpec {
	if u, ok := v.(*ssa.UnOp); ok {
		if fa, ok := u.X.(*ssa.FieldAddr); ok {
			st0 := deref(fa.X.Type())
			if k := namedKey(st0); k != "" {
				fname := types.Unalias(st0).Underlying().(*types.Struct).Field(fa.Field).Name()
				if s, ok := E.CS.Funcs["fieldfn:"+k+"."+fname]; ok {
					return s
				}
			}
		}
	}
	if p, ok := v.(*ssa.Parameter); ok {
		if s, ok := E.CS.Funcs["paramfn:"+E.cur.fn.Name()+"."+p.Name()]; ok {
			return s
		}
	}
	// a func value read from a captured variable
	if u, ok := v.(*ssa.UnOp); ok {
		if fv, ok := u.X.(*ssa.FreeVar); ok {
			if s, ok := E.CS.Funcs["paramfn:"+E.cur.fn.Name()+"."+fv.Name()]; ok {
				return s
			}
		}
	}
	return nil
}

// paramNames returns the names binding the arguments (receiver first).
func (E *Engine) paramNames(spec *FuncSpec, callee *ssa.Function, sig *types.Signature, nargs int, iface bool) []string {
	if len(spec.Params) > 0 {
		return spec.Params
	}
	var names []string
	if callee != nil && len(callee.Params) == nargs {
		for _, p := range callee.Params {
			names = append(names, p.Name())
		}
		return names
	}
	if iface {
		names = append(names, "self")
	} else if sig.Recv() != nil && nargs == sig.Params().Len()+1 {
		n := sig.Recv().Name()
		if n == "" || n == "_" {
			n = "self"
		}
		names = append(names, n)
	}
	for i := 0; i < sig.Params().Len(); i++ {
		n := sig.Params().At(i).Name()
		if n == "" || n == "_" {
			n = fmt.Sprintf("arg%d", i)
		}
		names = append(names, n)
	}
	return names
}

// applySpec applies a contract at a call site.
func (E *Engine) applySpec(st *State, in ssa.Instruction, spec *FuncSpec, callee *ssa.Function, sig *types.Signature, args []*Val, bindings []*Val, iface bool) *Val {
	E.usedSpecs[spec.Key] = true
	names := E.paramNames(spec, callee, sig, len(args), iface)
	vars := map[string]*Val{}
	for i, n := range names {
		if i < len(args) {
			vars[n] = args[i]
		}
	}
	if callee != nil {
		for i, fv := range callee.FreeVars {
			if i < len(bindings) {
				nv := *bindings[i]
				if _, isPtr := types.Unalias(fv.Type()).Underlying().(*types.Pointer); isPtr {
					nv.AutoDeref = true
				}
				vars[fv.Name()] = &nv
			}
		}
	}
	label := shortKey(spec.Key)
	for _, a := range args {
		E.checkTypeInvs(st, in, a, "argument of "+label)
	}
	// requires
	for i, cl := range spec.Requires {
		ev := &cenv{E: E, st: st, vars: vars, heap: st.heap, ctx: cl.Ctx, fc: E.cur, goal: true}
		f := ev.evalBool(cl.Expr)
		E.oblige(st, "requires@"+label, fmt.Sprintf("%s.%d", E.site(in), i), f, cl.Text, E.pos(in), nil)
		st.assume(f)
	}
	for _, h := range spec.Holds {
		E.requireHeld(st, in, vars, h, spec)
	}
	pre := copyHeap(st.heap)
	preAlloc := st.alloc
	if !spec.Pure && !spec.ModAll {
		E.growAlloc(st)
	}
	// effects
	if spec.ModAll {
		if E.dry == 0 && E.cur.spec != nil && !E.cur.spec.ModAll {
			E.oblige(st, "frame-write", E.site(in)+".star", "false", "callee "+label+" modifies *, the caller must declare modifies *", E.pos(in), nil)
		}
		if E.dry == 0 && E.cur.spec != nil {
			// whatever the caller promises to preserve, the callee must preserve too
			for _, p := range E.preservedPrefixes(E.cur.spec) {
				ok := false
				for _, q := range E.preservedPrefixes(spec) {
					if p == q || compHasPrefix(p, q) {
						ok = true
					}
				}
				if !ok {
					E.oblige(st, "frame-write", E.site(in)+".preserves."+p, "false", "callee "+label+" (modifies *) does not promise to preserve "+p, E.pos(in), nil)
				}
			}
		}
		E.havocAllPreserving(st, "callee "+label+" modifies *", E.preservedPrefixes(spec))
	} else {
		ev := &cenv{E: E, st: st, vars: vars, heap: pre, ctx: spec.Ctx, fc: E.cur}
		for _, mi := range E.evalModifies(st, E.cur, spec, ev, nil) {
			E.havocMod(st, mi)
		}
		for _, h := range spec.Havoc {
			for comp := range E.cur.compSort {
				if comp == h || strings.HasPrefix(comp, h) {
					E.havocComp(st, comp)
				}
			}
		}
	}
	// result
	var res *Val
	nres := sig.Results().Len()
	var facts []string
	if nres > 0 {
		if spec.Pure {
			res = E.pureResult(spec, sig, args, bindings)
			facts = append(facts, E.loadFacts(st, res)...)
		} else {
			res = E.freshVal(sig.Results(), "r:"+label, &facts)
		}
		st.assume(facts...)
		st.assume(E.allocFacts(st, res)...)
		E.assumeTypeInvs(st, res)
	}
	rvars := map[string]*Val{}
	for k, v := range vars {
		rvars[k] = v
	}
	if nres == 1 {
		rvars["result"] = res.F[0]
	} else if nres > 1 {
		rvars["result"] = res
	}
	for i := 0; i < nres; i++ {
		rvars[fmt.Sprintf("result_%d", i)] = res.F[i]
		if n := sig.Results().At(i).Name(); n != "" && n != "_" {
			if _, clash := rvars[n]; !clash {
				rvars[n] = res.F[i]
			}
		}
	}
	for _, cl := range spec.Ensures {
		if usesCallLog(cl.Expr) {
			continue
		}
		ev := &cenv{E: E, st: st, vars: rvars, heap: st.heap, oldHeap: pre, oldVars: vars, oldAlloc: preAlloc, ctx: cl.Ctx, fc: E.cur}
		if f, ok := ev.tryEvalBool(cl.Expr); ok {
			st.assume(f)
		} else {
			// the clause speaks about locals of the callee: internal, not visible to callers
			E.note("postcondition of %s not usable at call sites (mentions callee locals): %s", label, cl.Text)
		}
	}
	// call log
	ev := CallEvent{Label: label, Args: args, Heap: pre}
	if spec.Log != "" {
		ev.Label = spec.Log
	}
	if nres == 1 {
		ev.Res = res.F[0]
	} else if nres > 1 {
		ev.Res = res
	}
	ev.HeapAfter = copyHeap(st.heap)
	st.log = append(st.log, ev)
	E.afterSpecCall(st, in, spec, vars)
	if nres == 1 {
		return res.F[0]
	}
	return res
}

// pureResult: deterministic result of a pure function = uninterpreted function of the arguments.
func (E *Engine) pureResult(spec *FuncSpec, sig *types.Signature, args []*Val, bindings []*Val) *Val {
	var sorts, terms []string
	for _, a := range append(append([]*Val{}, args...), bindings...) {
		for _, l := range leaves(a) {
			if l.S == "" {
				panic(engineErr("derived pointer passed to pure function"))
			}
			sorts = append(sorts, l.Sort)
			terms = append(terms, l.S)
		}
	}
	var ls []leafInfo
	E.leafPaths(sig.Results(), "", &ls)
	var scal []string
	for i, l := range ls {
		name := qsym(fmt.Sprintf("fn:%s#%d", spec.Key, i))
		E.declare(name, "("+strings.Join(sorts, " ")+") "+l.Sort)
		if len(terms) == 0 {
			scal = append(scal, name)
		} else {
			scal = append(scal, sx(name, terms...))
		}
	}
	i := 0
	return E.build(sig.Results(), scal, &i)
}

// evalModifies evaluates the modifies clause of spec. ev==nil: function entry (own contract).
func (E *Engine) evalModifies(st *State, c *fnCtx, spec *FuncSpec, ev *cenv, _ interface{}) []*modItem {
	var out []*modItem
	if spec == nil {
		return nil
	}
	if ev == nil {
		ev = E.cenvFor(st, c, spec.Ctx)
		ev.entryNames = true
	}
	for _, e := range spec.Modifies {
		if e.Op == "call" && e.Args[0].Op == "ident" && e.Args[0].Name == "elems" && len(e.Args) == 2 {
			v := ev.eval(e.Args[1])
			if v.F == nil || len(v.F) != 4 {
				panic(engineErr("elems() of non-slice in modifies"))
			}
			et := types.Unalias(v.T).Underlying().(*types.Slice).Elem()
			out = append(out, &modItem{lv: &LVal{Kind: lvElem, Ref: v.F[0].S, Root: et}, allElems: true, lo: v.F[1].S, hi: add(v.F[1].S, v.F[3].S), expr: e.String()})
			continue
		}
		if e.Op == "call" && e.Args[0].Op == "ident" && e.Args[0].Name == "comp" && len(e.Args) == 2 {
			out = append(out, &modItem{comp: E.compFromExpr(ev, e.Args[1]), expr: e.String()})
			continue
		}
		lv := ev.evalLV(e)
		out = append(out, &modItem{lv: lv, expr: e.String()})
	}
	return out
}

// compFromExpr: pkg.Type.field.field -> component prefix
func (E *Engine) compFromExpr(ev *cenv, e *CExpr) string {
	var parts []string
	for x := e; ; {
		if x.Op == "sel" {
			parts = append([]string{x.Name}, parts...)
			x = x.Args[0]
			continue
		}
		if x.Op == "ident" {
			parts = append([]string{x.Name}, parts...)
		}
		break
	}
	// resolve type from the longest prefix
	for n := 2; n >= 1; n-- {
		if len(parts) < n {
			continue
		}
		var ct *CType
		if n == 2 {
			ct = &CType{Kind: "named", Pkg: parts[0], Name: parts[1]}
		} else {
			ct = &CType{Kind: "named", Name: parts[0]}
		}
		T, ok := E.tryResolve(ev.ctx, ct)
		if !ok {
			continue
		}
		root := E.rootName(T)
		rest := strings.Join(parts[n:], ".")
		if len(parts[n:]) == 1 {
			if glv := E.ghostFieldLV(T, "0", rest); glv != nil {
				return compName(E.rootOf(glv), "")
			}
		}
		return compName(root, rest)
	}
	panic(engineErr("comp(): cannot resolve " + e.String()))
}

func (E *Engine) tryResolve(ctx *FileCtx, ct *CType) (T types.Type, ok bool) {
	defer func() {
		if r := recover(); r != nil {
			if _, is := r.(engineErr); is {
				ok = false
				return
			}
			panic(r)
		}
	}()
	return E.resolveCType(ctx, ct), true
}

// modComps lists the heap components covered by a modifies item.
func (E *Engine) modComps(mi *modItem) []string {
	if mi.comp != "" {
		var out []string
		for comp := range E.cur.compSort {
			if comp == mi.comp || strings.HasPrefix(comp, mi.comp+".") || strings.HasPrefix(comp, mi.comp+"#") {
				out = append(out, comp)
			}
		}
		sort.Strings(out)
		return out
	}
	lv := mi.lv
	if lv.Kind != lvHeap && lv.Kind != lvElem {
		return nil
	}
	prefix, _ := E.lvPrefix(lv)
	var root string
	if lv.Kind == lvElem {
		root = elemsRoot(lv.Root)
	} else {
		root = E.rootOf(lv)
	}
	var ls []leafInfo
	E.leafPaths(E.lvType(lv), "", &ls)
	var out []string
	for _, l := range ls {
		out = append(out, compName(root, joinLeaf(prefix, l.Path)))
	}
	return out
}

func (E *Engine) havocMod(st *State, mi *modItem) {
	if mi.comp != "" {
		// make sure the component exists
		if E.dry == 0 && E.cur.spec != nil && !E.cur.spec.ModAll {
			if _, whole := E.allowedFor(mi.comp, "0", ""); !whole {
				E.oblige(st, "frame-write", "comp."+mi.comp, "false", "callee modifies the whole component "+mi.comp+", which the caller's modifies clause does not allow", "", nil)
			}
		}
		for _, comp := range E.modComps(mi) {
			E.havocComp(st, comp)
		}
		if len(E.modComps(mi)) == 0 {
			E.cur.pendingHavoc = append(E.cur.pendingHavoc, mi.comp)
		}
		return
	}
	lv := mi.lv
	if lv.Kind == lvLocal {
		var facts []string
		T := E.lvType(lv)
		nv := E.freshVal(T, "hv", &facts)
		st.assume(facts...)
		E.store(st, lv, nv)
		return
	}
	if mi.allElems {
		var ls []leafInfo
		E.leafPaths(lv.Root, "", &ls)
		for li, l := range ls {
			comp := compName(elemsRoot(lv.Root), l.Path)
			if li == 0 {
				E.checkWrite(st, comp, lv.Ref, "", "callee effect "+mi.expr)
			}
			a := E.heapArr(st.heap, comp, l.Sort, true)
			na := E.freshConst("hvarr", arrSort(l.Sort))
			if mi.lo != "" {
				// only the slice's window [off, off+cap) may change
				j := E.freshName("j")
				st.assume(fmt.Sprintf("(forall ((%s Int)) (! (=> (or (< %s %s) (>= %s %s)) (= (select %s %s) (select (select %s %s) %s))) :pattern ((select %s %s))))",
					j, j, mi.lo, j, mi.hi, na, j, a, lv.Ref, j, na, j))
			}
			st.heap[comp] = sx("store", a, lv.Ref, na)
			if st.written != nil {
				st.written[comp] = true
			}
			E.cur.touched[comp] = true
		}
		return
	}
	var facts []string
	T := E.lvType(lv)
	nv := E.freshVal(T, "hv", &facts)
	E.store(st, lv, nv)
	st.assume(facts...)
	st.assume(E.allocFacts(st, nv)...)
}

// ---------------------------------------------------------------------------
// Return: postconditions and frame

func (E *Engine) doReturn(st *State, in *ssa.Return) {
	c := E.cur
	if len(st.frames) > 0 {
		E.inlineReturn(st, in)
		return
	}
	if E.dry > 0 {
		return
	}
	E.markLabels(st)
	var rs []*Val
	for _, r := range in.Results {
		rs = append(rs, E.val(st, r))
	}
	c.paths++
	c.returns++
	if c.relRun == 0 && c.returns <= 12 {
		E.cover(st, fmt.Sprintf("return%d", c.returns), "this return is reachable under the contract's assumptions", E.pos(in))
	}
	if c.relRun > 0 {
		c.retVals = append(c.retVals, &Val{F: rs})
		c.retStates = append(c.retStates, st)
		return
	}
	sig := c.fn.Signature
	rvars := map[string]*Val{}
	for k, v := range c.params {
		rvars[k] = v
	}
	if len(rs) == 1 {
		rvars["result"] = rs[0]
	} else if len(rs) > 1 {
		rvars["result"] = &Val{T: sig.Results(), F: rs}
	}
	for i, r := range rs {
		rvars[fmt.Sprintf("result_%d", i)] = r
		if n := sig.Results().At(i).Name(); n != "" && n != "_" {
			if _, clash := rvars[n]; !clash {
				rvars[n] = r
			}
		}
	}
	for _, r := range rs {
		E.checkTypeInvs(st, in, r, "returned value")
	}
	for i, cl := range c.spec.Ensures {
		ev := &cenv{E: E, st: st, vars: rvars, heap: st.heap, oldHeap: c.entryHeap, oldVars: c.params, oldAlloc: c.entryAlloc, ctx: cl.Ctx, fc: c, goal: true}
		f := ev.evalBool(cl.Expr)
		E.oblige(st, "ensures", fmt.Sprint(i), f, cl.Text, E.pos(in), cl)
	}
	E.frameCheck(st, in)
	E.exitChecks(st, in)
}

func (E *Engine) frameCheck(st *State, in ssa.Instruction) {
	c := E.cur
	if c.spec.ModAll {
		return
	}
	if st.heap[epochKey] != "" {
		E.oblige(st, "frame", "havoc", "false", "function with a havoc call must declare modifies *", E.pos(in), nil)
		return
	}
	var comps []string
	for comp, t := range st.heap {
		if comp == epochKey || comp == allocKey || comp == keepKey || E.isImmutable(comp) {
			continue
		}
		if t != c.entryHeap[comp] && t != qsym("H0:"+comp) {
			comps = append(comps, comp)
		}
	}
	sort.Strings(comps)
	allowed := map[string][]*modItem{}
	whole := map[string]bool{}
	for _, mi := range c.modLVs {
		for _, comp := range E.modComps(mi) {
			if mi.comp != "" {
				whole[comp] = true
			} else {
				allowed[comp] = append(allowed[comp], mi)
			}
		}
	}
	for _, comp := range comps {
		if whole[comp] || E.sharedComp(comp) {
			continue
		}
		sortS := c.compSort[comp]
		twoD := strings.HasPrefix(sortS, "(Array Int (Array")
		k := E.freshConst("fr", SInt)
		cur := st.heap[comp]
		old := c.entryHeap[comp]
		if old == "" {
			old = E.heapArrSort(c.entryHeap, comp, c.compSort[comp])
		}
		var excl []string
		if twoD {
			j := E.freshConst("fj", SInt)
			for _, mi := range allowed[comp] {
				if mi.allElems {
					excl = append(excl, eq(k, mi.lv.Ref))
				} else {
					excl = append(excl, and(eq(k, mi.lv.Ref), eq(j, mi.lv.Idx)))
				}
			}
			goal := implies(and(sx("select", c.entryAlloc, k), not(or(excl...))), eq(sx("select", sx("select", cur, k), j), sx("select", sx("select", old, k), j)))
			E.oblige(st, "frame", comp, goal, "only declared locations of "+comp+" are modified", E.pos(in), nil)
		} else {
			for _, mi := range allowed[comp] {
				excl = append(excl, eq(k, mi.lv.Ref))
			}
			goal := implies(and(sx("select", c.entryAlloc, k), not(or(excl...))), eq(sx("select", cur, k), sx("select", old, k)))
			E.oblige(st, "frame", comp, goal, "only declared locations of "+comp+" are modified", E.pos(in), nil)
		}
	}
}

// ---------------------------------------------------------------------------
// defers, go

func (E *Engine) runDefers(st *State, in *ssa.RunDefers) []*State {
	ds := st.defers
	st.defers = nil
	cur := []*State{st}
	for i := len(ds) - 1; i >= 0; i-- {
		d := ds[i]
		var next []*State
		for _, s := range cur {
			alts := E.callDeferred(s, in, d)
			if alts == nil {
				next = append(next, s)
			} else {
				next = append(next, alts...)
			}
		}
		cur = next
	}
	if len(cur) == 1 && cur[0] == st {
		return nil
	}
	return cur
}

func (E *Engine) callDeferred(st *State, in ssa.Instruction, d deferred) []*State {
	cc := d.call
	if cc.IsInvoke() {
		key := E.ifaceKey(cc)
		spec := E.CS.Funcs[key]
		args := append([]*Val{d.fn}, d.args...)
		if spec == nil {
			E.havocAll(st, "deferred invoke "+key)
			return nil
		}
		E.applySpec(st, in, spec, nil, cc.Signature(), args, nil, true)
		return nil
	}
	fnv := d.fn
	if fnv.Fn == nil {
		E.havocAll(st, "deferred call of function value")
		return nil
	}
	key := fnv.Fn.Key
	if strings.HasPrefix(key, "builtin:") {
		return E.builtin(st, in, key[8:], cc, d.args, nil)
	}
	if alts, ok := E.concCall(st, in, key, cc, d.args, nil); ok {
		return alts
	}
	spec := E.CS.Funcs[key]
	if spec == nil {
		E.note("no contract for deferred callee %s: havoc call", key)
		E.havocAll(st, "deferred call "+key)
		return nil
	}
	var callee *ssa.Function
	if f, ok := fnv.Fn.Fn.(*ssa.Function); ok {
		callee = f
	} else if f, ok := E.Funcs[key]; ok {
		callee = f
	}
	args := d.args
	if fnv.Fn.Recv != nil {
		args = append([]*Val{fnv.Fn.Recv}, args...)
	}
	E.applySpec(st, in, spec, callee, cc.Signature(), args, fnv.Fn.Bindings, false)
	return nil
}

// ---------------------------------------------------------------------------
// builtins

func (E *Engine) builtin(st *State, in ssa.Instruction, name string, cc *ssa.CallCommon, args []*Val, res ssa.Value) []*State {
	switch name {
	case "len":
		a := args[0]
		switch t := types.Unalias(a.T).Underlying().(type) {
		case *types.Basic:
			E.setResult(st, res, &Val{T: tInt, S: sx(fSlen, a.S), Sort: SInt})
		case *types.Slice:
			E.setResult(st, res, &Val{T: tInt, S: a.F[2].S, Sort: SInt})
		case *types.Map:
			E.setResult(st, res, &Val{T: tInt, S: E.mapCard(st, a), Sort: SInt})
		case *types.Chan:
			n := E.freshConst("chanlen", SInt)
			st.assume(sx(">=", n, "0"))
			E.setResult(st, res, &Val{T: tInt, S: n, Sort: SInt})
		case *types.Pointer:
			E.setResult(st, res, &Val{T: tInt, S: intLit(t.Elem().Underlying().(*types.Array).Len()), Sort: SInt})
		case *types.Array:
			E.setResult(st, res, &Val{T: tInt, S: intLit(t.Len()), Sort: SInt})
		default:
			panic(engineErr("len of " + typeKey(a.T)))
		}
		return nil
	case "cap":
		a := args[0]
		if _, ok := types.Unalias(a.T).Underlying().(*types.Slice); ok {
			E.setResult(st, res, &Val{T: tInt, S: a.F[3].S, Sort: SInt})
			return nil
		}
		n := E.freshConst("cap", SInt)
		st.assume(sx(">=", n, "0"))
		E.setResult(st, res, &Val{T: tInt, S: n, Sort: SInt})
		return nil
	case "append":
		return E.doAppend(st, in, args, res)
	case "copy":
		E.doCopy(st, in, args, res)
		return nil
	case "delete":
		E.mapDelete(st, in, args[0], args[1])
		return nil
	case "close":
		E.chanClose(st, in, args[0])
		return nil
	case "min", "max":
		r := args[0]
		for _, a := range args[1:] {
			if name == "min" {
				r = &Val{T: r.T, S: ite(sx("<", a.S, r.S), a.S, r.S), Sort: SInt}
			} else {
				r = &Val{T: r.T, S: ite(sx(">", a.S, r.S), a.S, r.S), Sort: SInt}
			}
		}
		E.setResult(st, res, r)
		return nil
	case "print", "println":
		return nil
	case "ssa:wrapnilchk":
		E.nilCheck(st, in, args[0], "method receiver")
		E.setResult(st, res, args[0])
		return nil
	case "String": // unsafe.String
		E.setResult(st, res, E.unsafeString(st, args))
		return nil
	case "SliceData":
		// keep the slice itself as the "pointer" token
		E.setResult(st, res, &Val{T: cc.Signature().Results().At(0).Type(), S: args[0].F[0].S, Sort: SInt, LV: &LVal{Kind: lvElem, Ref: args[0].F[0].S, Idx: args[0].F[1].S, Root: types.Unalias(args[0].T).Underlying().(*types.Slice).Elem()}})
		return nil
	}
	panic(engineErr("unsupported builtin " + name))
}

func (E *Engine) unsafeString(st *State, args []*Val) *Val {
	p, n := args[0], args[1]
	if p.LV == nil || p.LV.Kind != lvElem {
		panic(engineErr("unsafe.String of unknown pointer"))
	}
	E.note("unsafe.String modelled as string(bytes); later writes to the bytes are not reflected")
	et := p.LV.Root
	s := E.freshConst("ustr", SStr)
	comp := compName(elemsRoot(et), "")
	a := E.heapArr(st.heap, comp, SInt, true)
	i := E.freshName("i")
	st.assume(eq(sx(fSlen, s), n.S),
		fmt.Sprintf("(forall ((%s Int)) (! (=> (and (<= 0 %s) (< %s %s)) (= (|sat| %s %s) (select (select %s %s) (+ %s %s)))) :pattern ((|sat| %s %s))))",
			i, i, i, n.S, s, i, a, p.LV.Ref, p.LV.Idx, i, s, i))
	return &Val{T: tString, S: s, Sort: SStr}
}

func (E *Engine) doAppend(st *State, in ssa.Instruction, args []*Val, res ssa.Value) []*State {
	s, t := args[0], args[1]
	sl := types.Unalias(s.T).Underlying().(*types.Slice)
	et := sl.Elem()
	ref, off, ln, cp := s.F[0].S, s.F[1].S, s.F[2].S, s.F[3].S
	var ls []leafInfo
	E.leafPaths(et, "", &ls)
	var n string
	tIsStr := t.F == nil && t.Sort == SStr
	if tIsStr {
		n = sx(fSlen, t.S)
	} else {
		n = t.F[2].S
	}
	if c, ok := isConstTerm(n); ok && c.Sign() == 0 {
		E.setResult(st, res, s)
		return nil
	}
	newLen := add(ln, n)
	one := false
	if c, ok := isConstTerm(n); ok && c.IsInt64() && c.Int64() == 1 {
		one = true
	}
	if one && !tIsStr && E.CS.NonNilIfaces[namedKey(et)] {
		ev := E.load(st, st.heap, &LVal{Kind: lvElem, Ref: t.F[0].S, Idx: E.at(t.F[1].S, "0"), Root: et})
		E.checkNonNilStored(st, in, ev)
	}
	// source element reader
	srcAt := func(h map[string]string, l leafInfo, j string) string {
		if tIsStr {
			return sx(fSat, t.S, j)
		}
		comp := compName(elemsRoot(et), l.Path)
		a := E.heapArr(h, comp, l.Sort, true)
		return sx("select", sx("select", a, t.F[0].S), E.at(t.F[1].S, j))
	}
	var outs []*State
	fits := le(newLen, cp)
	// Case A: in place
	if fits != "false" {
		a := st.clone()
		a.assume(fits)
		pre := copyHeap(a.heap)
		for _, l := range ls {
			comp := compName(elemsRoot(et), l.Path)
			arr := E.heapArr(a.heap, comp, l.Sort, true)
			base := add(off, ln)
			if one {
				a.heap[comp] = sx("store", arr, ref, sx("store", sx("select", arr, ref), base, srcAt(pre, l, "0")))
			} else {
				inner := E.freshConst("app", arrSort(l.Sort))
				j := E.freshName("j")
				a.assume(fmt.Sprintf("(forall ((%s Int)) (! (= (select %s %s) (ite (and (<= %s %s) (< %s %s)) %s (select (select %s %s) %s))) :pattern ((select %s %s))))",
					j, inner, j, base, j, j, add(base, n), srcAt(pre, l, sub(j, base)), arr, ref, j, inner, j))
				a.heap[comp] = sx("store", arr, ref, inner)
			}
			if a.written != nil {
				a.written[comp] = true
			}
			E.cur.touched[comp] = true
		}
		E.setResult(a, res, &Val{T: s.T, F: []*Val{intVal(ref), intVal(off), intVal(newLen), intVal(cp)}})
		outs = append(outs, a)
	}
	// Case B: reallocate
	if fits != "true" {
		b := st
		b.assume(not(fits))
		pre := copyHeap(b.heap)
		nref := E.newObject(b, "append")
		E.privNew(b, nref, elemsRoot(et)+"!")
		ncap := E.freshConst("ncap", SInt)
		b.assume(sx("<=", newLen, ncap), sx("<=", ncap, maxLen))
		for _, l := range ls {
			comp := compName(elemsRoot(et), l.Path)
			arr := E.heapArr(b.heap, comp, l.Sort, true)
			inner := E.freshConst("app", arrSort(l.Sort))
			j := E.freshName("j")
			var body string
			oldAt := sx("select", sx("select", arr, ref), add(off, j))
			if one {
				body = fmt.Sprintf("(=> (and (<= 0 %s) (< %s %s)) (= (select %s %s) %s))", j, j, ln, inner, j, oldAt)
				b.assume(fmt.Sprintf("(forall ((%s Int)) (! %s :pattern ((select %s %s))))", j, body, inner, j))
				// the same fact triggered from the source side (i = off + j)
				i2 := E.freshName("i")
				b.assume(fmt.Sprintf("(forall ((%s Int)) (! (=> (and (<= %s %s) (< %s %s)) (= (select %s %s) (select (select %s %s) %s))) :pattern ((select (select %s %s) %s))))",
					i2, off, i2, i2, add(off, ln), inner, sub(i2, off), arr, ref, i2, arr, ref, i2))
				b.assume(eq(sx("select", inner, ln), srcAt(pre, l, "0")))
				b.heap[comp] = sx("store", arr, nref, inner)
			} else {
				body = fmt.Sprintf("(=> (and (<= 0 %s) (< %s %s)) (= (select %s %s) (ite (< %s %s) %s %s)))", j, j, newLen, inner, j, j, ln, oldAt, srcAt(pre, l, sub(j, ln)))
				b.assume(fmt.Sprintf("(forall ((%s Int)) (! %s :pattern ((select %s %s))))", j, body, inner, j))
				b.heap[comp] = sx("store", arr, nref, inner)
			}
			if b.written != nil {
				b.written[comp] = true
			}
			E.cur.touched[comp] = true
		}
		E.setResult(b, res, &Val{T: s.T, F: []*Val{intVal(nref), intVal("0"), intVal(newLen), intVal(ncap)}})
		outs = append(outs, b)
	}
	return outs
}

func (E *Engine) doCopy(st *State, in ssa.Instruction, args []*Val, res ssa.Value) {
	d, s := args[0], args[1]
	et := types.Unalias(d.T).Underlying().(*types.Slice).Elem()
	sIsStr := s.F == nil && s.Sort == SStr
	var slen string
	if sIsStr {
		slen = sx(fSlen, s.S)
	} else {
		slen = s.F[2].S
	}
	dlen := d.F[2].S
	n := E.freshConst("ncopy", SInt)
	st.assume(eq(n, ite(sx("<", dlen, slen), dlen, slen)))
	var ls []leafInfo
	E.leafPaths(et, "", &ls)
	pre := copyHeap(st.heap)
	for _, l := range ls {
		comp := compName(elemsRoot(et), l.Path)
		arr := E.heapArr(st.heap, comp, l.Sort, true)
		parr := E.heapArr(pre, comp, l.Sort, true)
		inner := E.freshConst("cpy", arrSort(l.Sort))
		j := E.freshName("j")
		var src string
		if sIsStr {
			src = sx(fSat, s.S, sub(j, d.F[1].S))
		} else {
			src = sx("select", sx("select", parr, s.F[0].S), add(s.F[1].S, sub(j, d.F[1].S)))
		}
		st.assume(fmt.Sprintf("(forall ((%s Int)) (! (= (select %s %s) (ite (and (<= %s %s) (< %s %s)) %s (select (select %s %s) %s))) :pattern ((select %s %s))))",
			j, inner, j, d.F[1].S, j, j, add(d.F[1].S, n), src, parr, d.F[0].S, j, inner, j))
		st.heap[comp] = sx("store", arr, d.F[0].S, inner)
		if st.written != nil {
			st.written[comp] = true
		}
		E.cur.touched[comp] = true
	}
	E.setResult(st, res, &Val{T: tInt, S: n, Sort: SInt})
}
