package gocv

import (
	"fmt"
	"go/ast"
	"sort"
	"strings"

	"golang.org/x/tools/go/ssa"
)

// ---------------------------------------------------------------------------
// Stable names for closures.
//
// go/ssa numbers the function literals of a function in source order (F$1, F$2, ...), so adding
// an unrelated literal renumbers every later one. A contract may instead name a closure after the
// variable, struct field or call it is written for:
//   F$dialNetConn      the only literal of F assigned to a variable / field `dialNetConn`
//   F$dialNetConn#2    the second such literal of F, in source order
//   F$go#1, F$defer#1  literals started by a go / defer statement
//   F$Do#1             a literal passed as an argument of a call of Do(...)
// Aliases are resolved to the positional name when the contracts are loaded; nested closures may
// use an alias at every level.

// closureAliases returns alias -> positional key for every closure of the program's repo packages,
// both fully qualified (as function keys) and short (as used in paramfn: keys).
func (E *Engine) closureAliases() map[string]string {
	out := map[string]string{}
	// alias names of the direct literals of each parent
	childName := map[*ssa.Function]string{} // closure -> "name#k"
	single := map[*ssa.Function]bool{}
	byParent := map[*ssa.Function][]*ssa.Function{}
	for _, f := range E.Funcs {
		if p := f.Parent(); p != nil {
			byParent[p] = append(byParent[p], f)
		}
	}
	for p, kids := range byParent {
		if p.Pkg == nil || !strings.HasPrefix(p.Pkg.Pkg.Path(), "github.com/IrineSistiana/mosdns") {
			continue
		}
		var body ast.Node
		switch s := p.Syntax().(type) {
		case *ast.FuncDecl:
			body = s.Body
		case *ast.FuncLit:
			body = s.Body
		}
		if body == nil {
			continue
		}
		names := literalNames(body)
		sort.Slice(kids, func(i, j int) bool { return kids[i].Pos() < kids[j].Pos() })
		count := map[string]int{}
		total := map[string]int{}
		for _, k := range kids {
			if lit, ok := k.Syntax().(*ast.FuncLit); ok {
				if n := names[lit]; n != "" {
					total[n]++
				}
			}
		}
		for _, k := range kids {
			lit, ok := k.Syntax().(*ast.FuncLit)
			if !ok {
				continue
			}
			n := names[lit]
			if n == "" {
				continue
			}
			count[n]++
			childName[k] = fmt.Sprintf("%s#%d", n, count[n])
			single[k] = total[n] == 1
		}
	}
	// compose: every closure's key with any mix of alias / positional segments
	var variants func(f *ssa.Function) []string
	variants = func(f *ssa.Function) []string {
		p := f.Parent()
		if p == nil {
			return []string{stripGenerics(f.String())}
		}
		full := stripGenerics(f.String())
		i := strings.LastIndex(full, "$")
		if i < 0 {
			return []string{full}
		}
		var segs []string
		segs = append(segs, full[i+1:])
		if n, ok := childName[f]; ok {
			segs = append(segs, n)
			if single[f] {
				segs = append(segs, n[:strings.LastIndex(n, "#")])
			}
		}
		var res []string
		for _, pv := range variants(p) {
			for _, s := range segs {
				res = append(res, pv+"$"+s)
			}
		}
		return res
	}
	for _, f := range E.Funcs {
		if f.Parent() == nil {
			continue
		}
		pos := stripGenerics(f.String())
		for _, v := range variants(f) {
			if v == pos {
				continue
			}
			out[v] = pos
			out[shortFnName(v)] = shortFnName(pos)
		}
	}
	return out
}

// shortFnName: "pkg/path.F$1" -> "F$1"; "(*pkg/path.T).m$1" -> "m$1" (the form (*ssa.Function).Name() has)
func shortFnName(k string) string {
	if i := strings.LastIndex(k, ")."); i >= 0 {
		return k[i+2:]
	}
	s := k
	if i := strings.LastIndex(s, "/"); i >= 0 {
		s = s[i+1:]
	}
	if i := strings.Index(s, "."); i >= 0 {
		s = s[i+1:]
	}
	return s
}

// literalNames maps each function literal directly inside body (not inside a nested literal) to
// the name it is written for.
func literalNames(body ast.Node) map[*ast.FuncLit]string {
	out := map[*ast.FuncLit]string{}
	var stack []ast.Node
	ast.Inspect(body, func(n ast.Node) bool {
		if n == nil {
			stack = stack[:len(stack)-1]
			return true
		}
		if lit, ok := n.(*ast.FuncLit); ok {
			out[lit] = nameFor(lit, stack)
			stack = append(stack, n)
			// do not descend: nested literals belong to this literal
			stack = stack[:len(stack)-1]
			return false
		}
		stack = append(stack, n)
		return true
	})
	return out
}

func nameFor(lit *ast.FuncLit, stack []ast.Node) string {
	if len(stack) == 0 {
		return ""
	}
	identName := func(e ast.Expr) string {
		switch x := e.(type) {
		case *ast.Ident:
			return x.Name
		case *ast.SelectorExpr:
			return x.Sel.Name
		}
		return ""
	}
	parent := stack[len(stack)-1]
	switch p := parent.(type) {
	case *ast.AssignStmt:
		for i, r := range p.Rhs {
			if r == lit && i < len(p.Lhs) {
				return identName(p.Lhs[i])
			}
		}
	case *ast.ValueSpec:
		for i, r := range p.Values {
			if r == lit && i < len(p.Names) {
				return p.Names[i].Name
			}
		}
	case *ast.KeyValueExpr:
		if p.Value == lit {
			return identName(p.Key)
		}
	case *ast.ReturnStmt:
		return "return"
	case *ast.CallExpr:
		if p.Fun == lit {
			if len(stack) >= 2 {
				switch stack[len(stack)-2].(type) {
				case *ast.GoStmt:
					return "go"
				case *ast.DeferStmt:
					return "defer"
				}
			}
			return "call"
		}
		return identName(p.Fun)
	}
	return ""
}
