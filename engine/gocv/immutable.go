package gocv

import (
	"fmt"
	"go/types"
	"sort"
	"strings"

	"golang.org/x/tools/go/ssa"
)

// checkImmutableWrites: for every type with fields declared immutable, every
// store to such a field anywhere in the defining package must target an object
// allocated in the same function (composite literal / new). Other packages
// cannot write unexported fields; exported immutable fields are checked in all
// loaded repo packages.
func (E *Engine) checkImmutableWrites(prop string) []*Oblig {
	var out []*Oblig
	var tkeys []string
	for k, ts := range E.CS.Types {
		if len(ts.Immutable) > 0 {
			tkeys = append(tkeys, k)
		}
	}
	sort.Strings(tkeys)
	used := map[string]bool{}
	for comp := range E.usedImmutable {
		used[comp[:strings.Index(comp, "!")]] = true
	}
	for _, tk := range tkeys {
		if !used[tk] {
			continue
		}
		ts := E.CS.Types[tk]
		n := 0
		bad := ""
		for key, fn := range E.Funcs {
			if fn.Pkg == nil || !strings.HasPrefix(fn.Pkg.Pkg.Path(), "github.com/IrineSistiana/mosdns") {
				continue
			}
			for _, b := range fn.Blocks {
				for _, in := range b.Instrs {
					st, ok := in.(*ssa.Store)
					if !ok {
						continue
					}
					fa, ok := st.Addr.(*ssa.FieldAddr)
					if !ok {
						continue
					}
					bt := deref(fa.X.Type())
					if namedKey(bt) != tk {
						continue
					}
					fname := types.Unalias(bt).Underlying().(*types.Struct).Field(fa.Field).Name()
					if !ts.Immutable[fname] {
						continue
					}
					n++
					if _, isAlloc := fa.X.(*ssa.Alloc); !isAlloc {
						pos := E.Prog.Fset.Position(st.Pos())
						bad += fmt.Sprintf("%s writes %s.%s at %s:%d; ", shortKey(key), shortKey(tk), fname, strings.TrimPrefix(pos.Filename, E.RepoDir+"/"), pos.Line)
					}
				}
			}
		}
		ob := &Oblig{Name: shortKey(tk) + "/immutable", Kind: "immutable", Func: tk, Props: []string{prop},
			Goal: fmt.Sprintf("fields declared immutable are stored only into freshly allocated objects (%d stores scanned)", n)}
		if bad == "" {
			ob.Trivial = true
			ob.Res = SolverResult{Status: "unsat", Solver: "syntactic-scan"}
		} else {
			ob.Res = SolverResult{Status: "unknown", Solver: "syntactic-scan", Output: bad}
			ob.Goal += ": " + bad
		}
		out = append(out, ob)
	}
	return out
}
