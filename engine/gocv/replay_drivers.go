package gocv

import (
	"encoding/json"
	"fmt"
	"os"
	"os/exec"
	"path/filepath"
	"regexp"
	"strings"
)

// A replay driver is an in-package Go test (template under /verif/replay/<ID>/)
// injected into the real package with `go test -overlay`; it reads a witness
// from $VERIF_WITNESS, runs the REAL code and fails with a line
// "VERIF-REPLAY-CONFIRMED" when the property-level oracle is violated.
type driverInfo struct {
	PkgDir string `json:"pkg_dir"`
	File   string `json:"file"`
	Race   bool   `json:"race"`
}

type storedWitness struct {
	Name        string                 `json:"name"`
	Obligations string                 `json:"obligations"` // regexp on obligation names this witness is relevant for
	Witness     map[string]interface{} `json:"witness"`
	Driver      *driverInfo            `json:"driver,omitempty"` // overrides the property's default driver
}

type replayCfg struct {
	Driver    driverInfo      `json:"driver"`
	Witnesses []storedWitness `json:"witnesses"`
}

func loadReplayCfg(verifDir, prop string) *replayCfg {
	b, err := os.ReadFile(filepath.Join(verifDir, "replay", prop, "replay.json"))
	if err != nil {
		return nil
	}
	var c replayCfg
	if json.Unmarshal(b, &c) != nil {
		return nil
	}
	return &c
}

// RunDriver runs the property's driver on one witness; returns (confirmed, output, cmd).
func RunDriver(repoDir, verifDir, prop string, cfg *replayCfg, witness map[string]interface{}) (bool, string, string) {
	tmp := filepath.Join(verifDir, "out", "tmp")
	_ = os.MkdirAll(tmp, 0o755)
	wf, _ := os.CreateTemp(tmp, "witness-*.json")
	wb, _ := json.Marshal(witness)
	wf.Write(wb)
	wf.Close()
	defer os.Remove(wf.Name())
	target := filepath.Join(repoDir, cfg.Driver.PkgDir, "zz_verif_replay_test.go")
	src := filepath.Join(verifDir, "replay", prop, cfg.Driver.File)
	ov := map[string]map[string]string{"Replace": {target: src}}
	of, _ := os.CreateTemp(tmp, "overlay-*.json")
	ob, _ := json.Marshal(ov)
	of.Write(ob)
	of.Close()
	defer os.Remove(of.Name())
	args := []string{"test", "-overlay", of.Name(), "-vet=off", "-count=1", "-timeout", "60s", "-run", "^TestVerifReplay$"}
	if cfg.Driver.Race {
		args = append(args, "-race")
	}
	args = append(args, "./"+cfg.Driver.PkgDir+"/")
	cmd := exec.Command("go", args...)
	cmd.Dir = repoDir
	cmd.Env = append(os.Environ(), "GOFLAGS=-mod=mod", "GOPROXY=off", "GOSUMDB=off", "GOTOOLCHAIN=local", "VERIF_WITNESS="+wf.Name())
	out, _ := cmd.CombinedOutput()
	s := string(out)
	return strings.Contains(s, "VERIF-REPLAY-CONFIRMED") || (cfg.Driver.Race && strings.Contains(s, "DATA RACE")), trunc(s, 3000), "go " + strings.Join(args, " ")
}

// ReplayFile re-runs a stored replay file: the witness recorded in it (from the
// solver model) if any, otherwise the stored witnesses relevant to the failed
// obligation (bounded witness search). The file is updated with the outcome.
func ReplayFile(repoDir, verifDir, path string, verbose bool) bool {
	b, err := os.ReadFile(path)
	if err != nil {
		fmt.Println("replay:", err)
		return false
	}
	var m map[string]interface{}
	if json.Unmarshal(b, &m) != nil {
		return false
	}
	prop, _ := m["property"].(string)
	obName, _ := m["obligation"].(string)
	cfg := loadReplayCfg(verifDir, prop)
	drv := map[string]interface{}{"confirmed": false}
	defer func() {
		m["driver"] = drv
		nb, _ := json.MarshalIndent(m, "", " ")
		_ = os.WriteFile(path, nb, 0o644)
	}()
	if cfg == nil {
		drv["note"] = "no replay driver for this property"
		return false
	}
	type cand struct {
		name string
		w    map[string]interface{}
		drv  *driverInfo
	}
	var cands []cand
	if w, ok := m["witness"].(map[string]interface{}); ok && len(w) > 0 {
		cands = append(cands, cand{"solver-model", w, nil})
	}
	for _, sw := range cfg.Witnesses {
		if sw.Obligations != "" {
			if ok, _ := regexp.MatchString(sw.Obligations, obName); !ok {
				continue
			}
		}
		cands = append(cands, cand{"stored:" + sw.Name, sw.Witness, sw.Driver})
	}
	var tried []string
	for _, c := range cands {
		cfgc := *cfg
		if c.drv != nil {
			cfgc.Driver = *c.drv
		}
		ok, out, cmd := RunDriver(repoDir, verifDir, prop, &cfgc, c.w)
		tried = append(tried, c.name)
		if verbose {
			fmt.Printf("replay witness %s: confirmed=%v\n%s\n", c.name, ok, out)
		}
		if ok {
			drv["confirmed"] = true
			drv["witness_source"] = c.name
			drv["witness"] = c.w
			drv["cmd"] = cmd
			drv["output"] = out
			drv["tried"] = tried
			return true
		}
		drv["last_output"] = out
	}
	drv["tried"] = tried
	return false
}
