package gocv

import (
	"fmt"
	"go/types"
	"regexp"
	"sort"
	"strings"

	"golang.org/x/tools/go/ssa"
)

const (
	fSlen   = "|slen|"
	fSat    = "|sat|"
	fSubstr = "|substr|"
	fSeq    = "|seq|"
	fConcat = "|sconcat|"
	fAlloc0 = "|alloc0|"
)

type deferred struct {
	call *ssa.CallCommon
	args []*Val // evaluated at defer time: [fnval?, args...]
	fn   *Val
	pos  string
}

type CallEvent struct {
	Label string
	Args  []*Val
	Res   *Val
	Heap  map[string]string // heap snapshot at the call (before effects)
	HeapAfter map[string]string
}

type State struct {
	regs   map[ssa.Value]*Val
	heap   map[string]string // component -> array term
	hsort  map[string]string // component -> sort of array
	cells  map[*Cell]*Val
	env    map[string]*Val
	pc     []string
	defers []deferred
	log    []CallEvent
	alloc  string
	locks  map[string]string // lock term -> "r"|"w"
	ghost  map[string]string // misc ghost scalars (tokens etc.)
	written map[string]bool   // dry-run: comps written
	cellsWritten map[*Cell]bool
	variantAt map[*ssa.BasicBlock]string
	inLoop map[*ssa.BasicBlock]bool
	path   []string // trace of block indices for reporting
	fnAt   map[string]*FnVal // function values stored in variable cells (by cell ref)
	loopLog map[int]int // loop ordinal -> length of the call log at the last loop head
	headEnv map[int]map[string]*Val // loop ordinal -> locals at the head of the current iteration
	headHeap map[int]map[string]string
	dead   bool
	frames []*inlFrame // inlined calls in progress (inline.go)
}

func (st *State) clone() *State {
	n := &State{
		regs: make(map[ssa.Value]*Val, len(st.regs)+8), heap: make(map[string]string, len(st.heap)+4),
		hsort: st.hsort, cells: make(map[*Cell]*Val, len(st.cells)), env: make(map[string]*Val, len(st.env)),
		alloc: st.alloc, locks: map[string]string{}, ghost: map[string]string{},
		written: st.written, cellsWritten: st.cellsWritten,
		variantAt: map[*ssa.BasicBlock]string{}, inLoop: map[*ssa.BasicBlock]bool{},
	}
	for k, v := range st.regs {
		n.regs[k] = v
	}
	for k, v := range st.heap {
		n.heap[k] = v
	}
	for k, v := range st.cells {
		n.cells[k] = v
	}
	for k, v := range st.env {
		n.env[k] = v
	}
	for k, v := range st.locks {
		n.locks[k] = v
	}
	for k, v := range st.ghost {
		n.ghost[k] = v
	}
	for k, v := range st.variantAt {
		n.variantAt[k] = v
	}
	for k, v := range st.inLoop {
		n.inLoop[k] = v
	}
	if st.fnAt != nil {
		n.fnAt = map[string]*FnVal{}
		for k, v := range st.fnAt {
			n.fnAt[k] = v
		}
	}
	if st.loopLog != nil {
		n.loopLog = map[int]int{}
		for k, v := range st.loopLog {
			n.loopLog[k] = v
		}
	}
	n.pc = append([]string(nil), st.pc...)
	n.defers = append([]deferred(nil), st.defers...)
	n.log = append([]CallEvent(nil), st.log...)
	if st.headEnv != nil {
		n.headEnv = map[int]map[string]*Val{}
		n.headHeap = map[int]map[string]string{}
		for k, v := range st.headEnv {
			n.headEnv[k] = v
		}
		for k, v := range st.headHeap {
			n.headHeap[k] = v
		}
	}
	n.path = append([]string(nil), st.path...)
	n.frames = append([]*inlFrame(nil), st.frames...)
	return n
}

func (st *State) assume(f ...string) {
	for _, x := range f {
		if x != "true" && x != "" {
			st.pc = append(st.pc, x)
		}
	}
}

func copyHeap(h map[string]string) map[string]string {
	n := make(map[string]string, len(h))
	for k, v := range h {
		n[k] = v
	}
	return n
}

// ---------------------------------------------------------------------------
// Heap access

// heapArr returns the current array term of a component, creating the initial
// constant lazily. Initial constants are shared by all paths of a function so
// that old() snapshots agree.
func (E *Engine) heapArr(h map[string]string, comp, sort string, twoD bool) string {
	s := arrSort(sort)
	if twoD {
		s = arr2Sort(sort)
	}
	return E.heapArrSort(h, comp, s)
}

func (E *Engine) havocComp(st *State, comp string) {
	s, ok := E.cur.compSort[comp]
	if !ok {
		return
	}
	st.heap[comp] = E.freshConst("H:"+comp, s)
	if E.cur.compPtr[comp] {
		st.assume(E.closureFact(st.heap[comp], s, st.alloc))
	}
	st.assume(E.frameAxiom(comp, st.heap[comp], s))
	if st.written != nil {
		st.written[comp] = true
	}
}

// lvType returns the static type of the location.
func (E *Engine) lvType(lv *LVal) types.Type {
	T := lv.Root
	for _, s := range lv.Path {
		sh := E.shape(T)
		if s.IsArr {
			T = types.Unalias(T).Underlying().(*types.Array).Elem()
			continue
		}
		T = sh.Fields[s.Field].T
	}
	return T
}

// lvPrefix returns the leaf-path prefix for a heap lvalue path.
func (E *Engine) lvPrefix(lv *LVal) (string, bool) {
	T := lv.Root
	p := ""
	for _, s := range lv.Path {
		sh := E.shape(T)
		if s.IsArr {
			if s.Sym != "" {
				return "", false
			}
			f := sh.Fields[s.Field]
			p += f.Name
			T = f.T
			continue
		}
		f := sh.Fields[s.Field]
		if strings.HasPrefix(f.Name, "#") || strings.HasPrefix(f.Name, "[") {
			p += f.Name
		} else if p == "" {
			p = f.Name
		} else {
			p += "." + f.Name
		}
		T = f.T
	}
	return p, true
}

func joinLeaf(prefix, leaf string) string {
	if prefix == "" {
		return leaf
	}
	if leaf == "" {
		return prefix
	}
	if strings.HasPrefix(leaf, "#") || strings.HasPrefix(leaf, "[") {
		return prefix + leaf
	}
	return prefix + "." + leaf
}

// load reads the value at lv.
func (E *Engine) load(st *State, h map[string]string, lv *LVal) *Val {
	T := E.lvType(lv)
	switch lv.Kind {
	case lvLocal:
		v := st.cells[lv.Cell]
		if v == nil {
			v = E.zeroVal(lv.Cell.T)
		}
		return E.project(v, lv.Root, lv.Path)
	case lvGlobal:
		g := E.globalVal(lv.Global, lv.Root)
		return E.project(g, lv.Root, lv.Path)
	}
	prefix, ok := E.lvPrefix(lv)
	if !ok {
		panic(engineErr("symbolic array index in heap lvalue"))
	}
	var root string
	twoD := lv.Kind == lvElem
	if twoD {
		root = elemsRoot(lv.Root)
	} else {
		root = E.rootOf(lv)
	}
	var ls []leafInfo
	E.leafPaths(T, "", &ls)
	var scal []string
	for _, l := range ls {
		comp := compName(root, joinLeaf(prefix, l.Path))
		if isPtrLeaf(l) {
			E.cur.compPtr[comp] = true
		}
		a := E.heapArr(h, comp, l.Sort, twoD)
		var t string
		if twoD {
			t = sx("select", sx("select", a, lv.Ref), lv.Idx)
		} else {
			t = sx("select", a, lv.Ref)
		}
		scal = append(scal, t)
	}
	i := 0
	v := E.build(T, scal, &i)
	if st != nil && st.fnAt != nil && lv.Kind == lvHeap && len(lv.Path) == 0 {
		if fv, ok := st.fnAt[lv.Ref]; ok && v.F == nil {
			v.Fn = fv
		}
	}
	return v
}

// build reassembles a value of type T from scalar leaves.
func (E *Engine) build(T types.Type, scal []string, i *int) *Val {
	sh := E.shape(T)
	if sh.Scalar {
		v := &Val{T: T, S: scal[*i], Sort: sh.Sort}
		*i++
		return v
	}
	v := &Val{T: T, F: []*Val{}}
	for _, f := range sh.Fields {
		v.F = append(v.F, E.build(f.T, scal, i))
	}
	return v
}

// project selects the sub-value at path.
func (E *Engine) project(v *Val, T types.Type, path []pathStep) *Val {
	for _, s := range path {
		if s.IsArr && s.Sym != "" {
			// symbolic index into small array: ite chain
			n := len(v.F)
			res := v.F[n-1]
			for k := n - 2; k >= 0; k-- {
				res = E.iteVal(eq(s.Sym, intLit(int64(k))), v.F[k], res)
			}
			v = res
			continue
		}
		if v.F == nil || s.Field >= len(v.F) {
			panic(engineErr("project: bad path"))
		}
		v = v.F[s.Field]
	}
	return v
}

func (E *Engine) iteVal(c string, a, b *Val) *Val {
	if a.F == nil {
		return &Val{T: a.T, S: ite(c, a.S, b.S), Sort: a.Sort}
	}
	r := &Val{T: a.T, F: []*Val{}}
	for i := range a.F {
		r.F = append(r.F, E.iteVal(c, a.F[i], b.F[i]))
	}
	return r
}

// update returns v with the sub-value at path replaced by nv.
func (E *Engine) update(v *Val, path []pathStep, nv *Val) *Val {
	if len(path) == 0 {
		return nv
	}
	s := path[0]
	r := &Val{T: v.T, F: append([]*Val(nil), v.F...)}
	if s.IsArr && s.Sym != "" {
		for k := range r.F {
			upd := E.update(v.F[k], path[1:], nv)
			r.F[k] = E.iteVal(eq(s.Sym, intLit(int64(k))), upd, v.F[k])
		}
		return r
	}
	r.F[s.Field] = E.update(v.F[s.Field], path[1:], nv)
	return r
}

// store writes nv at lv.
func (E *Engine) store(st *State, lv *LVal, nv *Val) {
	switch lv.Kind {
	case lvLocal:
		cur := st.cells[lv.Cell]
		if cur == nil {
			cur = E.zeroVal(lv.Cell.T)
		}
		st.cells[lv.Cell] = E.update(cur, lv.Path, nv)
		if st.cellsWritten != nil {
			st.cellsWritten[lv.Cell] = true
		}
		return
	case lvGlobal:
		E.note("store to global %s ignored (globals are assumed constant)", lv.Global)
		return
	}
	T := E.lvType(lv)
	prefix, ok := E.lvPrefix(lv)
	if !ok {
		panic(engineErr("symbolic array index in heap store"))
	}
	twoD := lv.Kind == lvElem
	var root string
	if twoD {
		root = elemsRoot(lv.Root)
	} else {
		root = E.rootOf(lv)
	}
	var ls []leafInfo
	E.leafPaths(T, "", &ls)
	sc := leaves(nv)
	if nv.Fn != nil && lv.Kind == lvHeap && len(lv.Path) == 0 {
		if st.fnAt == nil {
			st.fnAt = map[string]*FnVal{}
		}
		st.fnAt[lv.Ref] = nv.Fn
	}
	if len(sc) != len(ls) {
		panic(engineErr(fmt.Sprintf("store: shape mismatch %d vs %d for %s", len(sc), len(ls), typeKey(T))))
	}
	for i, l := range ls {
		comp := compName(root, joinLeaf(prefix, l.Path))
		if isPtrLeaf(l) {
			E.cur.compPtr[comp] = true
		}
		a := E.heapArr(st.heap, comp, l.Sort, twoD)
		if i == 0 {
			idx := ""
			if twoD {
				idx = lv.Idx
			}
			E.checkWrite(st, comp, lv.Ref, idx, "store")
		}
		if i == 0 && E.isImmutable(comp) {
			E.oblige(st, "immutable-write", comp, not(sx("select", E.cur.entryAlloc, lv.Ref)), "immutable field is written only on objects created in this activation", "", nil)
		}
		if twoD {
			st.heap[comp] = sx("store", a, lv.Ref, sx("store", sx("select", a, lv.Ref), lv.Idx, sc[i].S))
		} else {
			st.heap[comp] = sx("store", a, lv.Ref, sc[i].S)
		}
		if st.written != nil {
			st.written[comp] = true
		}
		E.cur.touched[comp] = true
	}
}

// globalVal returns the (constant) symbolic value of a package-level variable.
func (E *Engine) globalVal(name string, T types.Type) *Val {
	if v, ok := E.globals[name]; ok {
		return v
	}
	var facts []string
	v := E.freshVal(T, "g:"+name, &facts)
	if _, isSig := types.Unalias(T).Underlying().(*types.Signature); isSig {
		v.Fn = &FnVal{Key: "var:" + name}
	}
	if E.nonNilGlobals[name] {
		if sh := E.shape(T); sh.Kind == "iface" {
			facts = append(facts, sx(">", v.F[0].S, "0"))
		} else if _, isPtr := types.Unalias(T).Underlying().(*types.Pointer); isPtr && v.S != "" {
			facts = append(facts, sx(">", v.S, "0"))
		}
	}
	E.globals[name] = v
	E.globalFacts = append(E.globalFacts, facts...)
	return v
}

// ---------------------------------------------------------------------------
// Obligations

type Oblig struct {
	Name    string
	Kind    string
	Func    string
	Props   []string
	Goal    string
	Pos     string
	SMT     string
	Trivial bool
	Res     SolverResult
	File    string
	PathNo  int
	Clause  string
	Inputs  map[string]string // driver-visible input name -> SMT term
	ValueNames []string
	Trace string
	WallMs int64
	Cover  bool // reachability check: must NOT be refutable
	Variants func() []string // weaker queries (dangerous hypotheses dropped), tried when the full one is undecided
}

var symRe = regexp.MustCompile(`\|[^|]*\|`)

func (E *Engine) render(assumes []string, goal string, values []inputTerm) string {
	f := &SMTFile{Sorts: []string{SStr}}
	all := append(append([]string{}, assumes...), goal)
	all = append(all, E.globalFacts...)

	seen := map[string]bool{}
	var work []string
	scan := func(s string) {
		for _, m := range symRe.FindAllString(s, -1) {
			if !seen[m] {
				seen[m] = true
				work = append(work, m)
			}
		}
	}
	for _, a := range all {
		scan(a)
	}
	usedAx := map[int]bool{}
	var axs []string
	for len(work) > 0 {
		work = work[:0]
		progress := false
		allAx := E.axioms
		if E.cur != nil {
			allAx = append(append([]axiom{}, E.axioms...), E.cur.heapFacts...)
		}
		for i, ax := range allAx {
			if usedAx[i] {
				continue
			}
			hit := len(ax.Trigger) == 0
			for _, t := range ax.Trigger {
				if seen[t] {
					hit = true
					break
				}
			}
			if hit {
				usedAx[i] = true
				axs = append(axs, ax.Body)
				scan(ax.Body)
				progress = true
			}
		}
		if !progress {
			break
		}
		work = append(work, "x")
	}
	var names []string
	for n := range seen {
		if _, ok := E.decls[n]; ok {
			names = append(names, n)
		}
	}
	sort.Strings(names)
	for _, n := range names {
		f.Decls = append(f.Decls, Decl{n, E.decls[n]})
	}
	f.Prelude = axs
	f.Assumes = append(append([]string{}, E.globalFacts...), assumes...)

	f.Goal = goal
	for _, v := range values {
		ok := true
		for _, m := range symRe.FindAllString(v.Term, -1) {
			if !seen[m] {
				ok = false
			}
		}
		if ok {
			f.Values = append(f.Values, v.Term)
			f.ValueNames = append(f.ValueNames, v.Name)
		}
	}
	E.lastValueNames = f.ValueNames
	return f.Render()
}

func (E *Engine) oblige(st *State, kind, site, goal, pretty, pos string, cl *Clause) {
	if E.dry > 0 || st.dead || (E.relSilence && kind != "relational") {
		return
	}
	if len(st.frames) > 0 && assumedInInline(kind) {
		// inside a helper executed in place (inline.go): its intrinsic safety is assumed
		st.assume(goal)
		return
	}
	if E.fragment && kind != "captured" {
		// the enclosing function is not under verification here: its own obligations are
		// assumed to hold on the way to the closure creation
		st.assume(goal)
		return
	}
	c := E.cur
	if E.Quick && isSlow(cl) {
		// proved in the thorough tier only (see isSlow)
		E.Deferred = append(E.Deferred, fmt.Sprintf("%s/%s#%s", c.short, kind, site))
		return
	}
	name := fmt.Sprintf("%s/%s", c.short, kind)
	if site != "" {
		name += "#" + site
	}
	ob := &Oblig{Name: name, Kind: kind, Func: c.key, Goal: pretty, Pos: pos, PathNo: c.paths, Trace: strings.Join(st.path, ">")}
	if cl != nil {
		ob.Clause = cl.Text
		for p := range c.props {
			if E.ScopeAll || clauseHasTag(c.spec, cl, p) {
				ob.Props = append(ob.Props, p)
			}
		}
	} else {
		for p := range c.props {
			ob.Props = append(ob.Props, p)
		}
	}
	sort.Strings(ob.Props)
	if goal == "true" {
		ob.Trivial = true
	} else {
		ob.SMT = E.render(st.pc, goal, c.inputs)
		ob.ValueNames = E.lastValueNames
		pc := st.pc
		inputs := c.inputs
		cur := E.cur
		ob.Variants = func() []string {
			var danger []int
			for i, a := range pc {
				if strings.Contains(a, "(forall ") && strings.Contains(a, "(exists ") {
					danger = append(danger, i)
				}
			}
			if len(danger) == 0 || len(danger) > 8 {
				return nil
			}
			mk := func(keep int) string {
				var as []string
				for i, a := range pc {
					isD := false
					for _, d := range danger {
						if d == i {
							isD = true
						}
					}
					if isD && i != keep {
						continue
					}
					as = append(as, a)
				}
				saved := E.cur
				E.cur = cur
				defer func() { E.cur = saved }()
				return E.render(as, goal, inputs)
			}
			out := []string{mk(-1)}
			if len(danger) > 1 {
				for _, d := range danger {
					out = append(out, mk(d))
				}
			}
			return out
		}
	}
	E.Obligs = append(E.Obligs, ob)
}

// rootOf: component family of the object an l-value lives in.
func (E *Engine) rootOf(lv *LVal) string {
	if lv.VarCell {
		return "var<" + typeKey(lv.Root) + ">"
	}
	return E.rootName(lv.Root)
}

// cover emits a reachability (anti-vacuity) check: the current path condition
// must be satisfiable. It fails only if a solver refutes it.
func (E *Engine) cover(st *State, site, what, pos string) {
	E.coverWith(st, site, what, pos, "")
}

// coverWith: the path condition together with extra is satisfiable.
func (E *Engine) coverWith(st *State, site, what, pos, extra string) {
	if E.dry > 0 || st.dead || E.relSilence {
		return
	}
	if E.fragment && !strings.HasPrefix(site, "captured") {
		return
	}
	c := E.cur
	ob := &Oblig{Name: fmt.Sprintf("%s/cover#%s", c.short, site), Kind: "cover", Func: c.key, Goal: what, Pos: pos, PathNo: c.paths, Cover: true, Trace: strings.Join(st.path, ">")}
	for p := range c.props {
		ob.Props = append(ob.Props, p)
	}
	sort.Strings(ob.Props)
	pc := st.pc
	if extra != "" {
		pc = append(append([]string(nil), st.pc...), extra)
	}
	ob.SMT = E.render(pc, "false", nil)
	E.Obligs = append(E.Obligs, ob)
}

const fAelem = "|aelem|"

// arrayElemRef: the object identity of element idx of a large inline array located at lv.
func (E *Engine) arrayElemRef(lv *LVal, idx string) string {
	if lv.Kind != lvHeap {
		panic(engineErr("large array outside the heap"))
	}
	prefix, _ := E.lvPrefix(lv)
	pid := E.typeID2(E.rootOf(lv) + "!" + prefix)
	if !E.specDecl["aelem"] {
		E.specDecl["aelem"] = true
		E.declare(fAelem, "(Int Int Int) Int")
		E.declare("|aelem.base|", "(Int) Int")
		E.declare("|aelem.idx|", "(Int) Int")
		E.declare("|aelem.path|", "(Int) Int")
		E.axioms = append(E.axioms,
			axiom{Name: "aelem-inj", Trigger: []string{fAelem}, Body: "(forall ((b Int) (p Int) (i Int)) (! (and (= (|aelem.base| (|aelem| b p i)) b) (= (|aelem.idx| (|aelem| b p i)) i) (= (|aelem.path| (|aelem| b p i)) p) (=> (> b 0) (> (|aelem| b p i) 0)) (= (select |alloc0| (|aelem| b p i)) (select |alloc0| b))) :pattern ((|aelem| b p i))))"},
		)
		E.declare(fAlloc0, "() (Array Int Bool)")
	}
	return sx(fAelem, lv.Ref, intLit(int64(pid)), idx)
}

func (E *Engine) typeID2(k string) int {
	if id, ok := E.typeIDs["path:"+k]; ok {
		return id
	}
	id := len(E.typeIDs) + 1
	E.typeIDs["path:"+k] = id
	return id
}
