package gocv

import (
	"fmt"
	"go/types"
	"sort"
	"strings"

	"golang.org/x/tools/go/ssa"
)

// ---------------------------------------------------------------------------
// Maps:  dom : ref -> (K -> Bool), val<leaf> : ref -> (K -> X), card : ref -> Int

// isImmutable: comp = "<pkg.Type>!<field>..." where field is declared immutable.
func (E *Engine) isImmutable(comp string) bool {
	i := strings.Index(comp, "!")
	if i < 0 {
		return false
	}
	ts := E.CS.Types[comp[:i]]
	if ts == nil || len(ts.Immutable) == 0 {
		return false
	}
	f := comp[i+1:]
	if j := strings.IndexAny(f, ".#["); j >= 0 {
		f = f[:j]
	}
	return ts.Immutable[f]
}

func (E *Engine) heapArrSort(h map[string]string, comp, full string) string {
	if t, ok := h[comp]; ok {
		return t
	}
	if E.isImmutable(comp) {
		name := qsym("IMM:" + comp)
		E.declare(name, "() "+full)
		E.cur.compSort[comp] = full
		h[comp] = name
		E.usedImmutable[comp] = true
		return name
	}
	ep := h[epochKey]
	for p, e := range parseKeep(h[keepKey]) {
		if compHasPrefix(comp, p) {
			ep = e // component family preserved since that epoch
		}
	}
	name := qsym("H0" + ep + ":" + comp)
	E.declare(name, "() "+full)
	E.cur.compSort[comp] = full
	h[comp] = name
	if E.cur.compPtr[comp] && !E.cur.factSeen[name] {
		E.cur.factSeen[name] = true
		al := fAlloc0
		if a, ok := h[allocKey]; ok {
			al = a
		}
		E.cur.heapFacts = append(E.cur.heapFacts, axiom{Name: "closure", Body: E.closureFact(name, full, al), Trigger: []string{name}})
	}
	return name
}

const allocKey = "\x00alloc"

// closureFact: every pointer stored in an allocated object is nil or allocated
// (w.r.t. the allocation set `al` current when the array term came into being).
func (E *Engine) closureFact(arr, full, al string) string {
	r := E.freshName("r")
	if strings.HasPrefix(full, "(Array Int (Array Int") {
		i := E.freshName("i")
		return fmt.Sprintf("(forall ((%s Int) (%s Int)) (! (=> (select %s %s) (or (= (select (select %s %s) %s) 0) (select %s (select (select %s %s) %s)))) :pattern ((select (select %s %s) %s))))",
			r, i, al, r, arr, r, i, al, arr, r, i, arr, r, i)
	}
	return fmt.Sprintf("(forall ((%s Int)) (! (=> (select %s %s) (or (= (select %s %s) 0) (select %s (select %s %s)))) :pattern ((select %s %s))))",
		r, al, r, arr, r, al, arr, r, arr, r)
}

func isPtrLeaf(l leafInfo) bool {
	if l.Ptr || strings.HasSuffix(l.Path, "#ref") {
		return true
	}
	if l.T == nil {
		return false
	}
	switch types.Unalias(l.T).Underlying().(type) {
	case *types.Pointer, *types.Map, *types.Chan:
		return true
	}
	return false
}

func (E *Engine) mapInfo(T types.Type) (root string, ksort string, vt types.Type) {
	m := types.Unalias(T).Underlying().(*types.Map)
	ksh := E.shape(m.Key())
	if !ksh.Scalar {
		// aggregate keys (structs of comparable leaves) are encoded as integers through an
		// uninterpreted function of their leaves (mapKey); ranging over such a map is unsupported
		return "map<" + typeKey(m.Key()) + "," + typeKey(m.Elem()) + ">", SInt, m.Elem()
	}
	return "map<" + typeKey(m.Key()) + "," + typeKey(m.Elem()) + ">", ksh.Sort, m.Elem()
}

// mapKey: the term that indexes the map's arrays for key k (k itself for scalar keys).
func (E *Engine) mapKey(k *Val) *Val {
	if k == nil || k.F == nil {
		return k
	}
	ls := leaves(k)
	var sorts, args []string
	for _, l := range ls {
		if l.S == "" {
			panic(engineErr("map key with a derived pointer"))
		}
		sorts = append(sorts, l.Sort)
		args = append(args, l.S)
	}
	name := qsym("key:" + typeKey(k.T))
	E.declare(name, "("+strings.Join(sorts, " ")+") Int")
	return &Val{T: k.T, S: sx(name, args...), Sort: SInt}
}

func (E *Engine) mapDom(h map[string]string, m *Val) string {
	root, ks, _ := E.mapInfo(m.T)
	a := E.heapArrSort(h, root+"!dom", fmt.Sprintf("(Array Int (Array %s Bool))", ks))
	return sx("select", a, m.S)
}

func (E *Engine) mapHas(h map[string]string, m, k *Val) string {
	k = E.mapKey(k)
	return sx("select", E.mapDom(h, m), k.S)
}

func (E *Engine) mapCardH(h map[string]string, m *Val) string {
	root, _, _ := E.mapInfo(m.T)
	a := E.heapArrSort(h, root+"!card", "(Array Int Int)")
	return sx("select", a, m.S)
}

func (E *Engine) mapCard(st *State, m *Val) string {
	c := E.mapCardH(st.heap, m)
	st.assume(sx(">=", c, "0"), sx("<=", c, maxLen))
	st.assume(E.cardEmptyFact(st.heap, m))
	return c
}

// cardEmptyFact: a map without keys has cardinality 0 (and a map with a key has card >= 1 is
// maintained by the update rules).
func (E *Engine) cardEmptyFact(h map[string]string, m *Val) string {
	_, ks, _ := E.mapInfo(m.T)
	k := E.freshName("k")
	dom := E.mapDom(h, m)
	return implies(fmt.Sprintf("(forall ((%s %s)) (not (select %s %s)))", k, ks, dom, k), eq(E.mapCardH(h, m), "0"))
}

func (E *Engine) mapGet(h map[string]string, m, k *Val) *Val {
	k = E.mapKey(k)
	root, ks, vt := E.mapInfo(m.T)
	var ls []leafInfo
	E.leafPaths(vt, "", &ls)
	var scal []string
	for _, l := range ls {
		a := E.heapArrSort(h, root+"!val"+l.Path, fmt.Sprintf("(Array Int (Array %s %s))", ks, l.Sort))
		scal = append(scal, sx("select", sx("select", a, m.S), k.S))
	}
	i := 0
	return E.build(vt, scal, &i)
}

func (E *Engine) mapLookup(st *State, x *ssa.Lookup, m, k *Val) *Val {
	_, _, vt := E.mapInfo(m.T)
	has := E.mapHas(st.heap, m, k)
	// a nil map has no keys
	st.assume(implies(eq(m.S, "0"), not(has)))
	v := E.mapGet(st.heap, m, k)
	st.assume(E.loadFacts(st, v)...)
	r := E.iteVal(has, v, E.zeroVal(vt))
	if x.CommaOk {
		return &Val{T: x.Type(), F: []*Val{r, boolVal(has)}}
	}
	return r
}

func (E *Engine) markWritten(st *State, comp string) {
	if st.written != nil {
		st.written[comp] = true
	}
	E.cur.touched[comp] = true
}

func (E *Engine) mapUpdate(st *State, x *ssa.MapUpdate) {
	m, k, v := E.val(st, x.Map), E.val(st, x.Key), E.val(st, x.Value)
	E.escapeVal(st, k)
	E.escapeVal(st, v)
	k = E.mapKey(k)
	E.oblige(st, "nil-map", E.site(x), not(eq(m.S, "0")), "assignment to entry in non-nil map", E.pos(x), nil)
	st.assume(not(eq(m.S, "0")))
	E.lockCheckMap(st, x, x.Map, true)
	root, ks, vt := E.mapInfo(m.T)
	has := E.mapHas(st.heap, m, k)
	domA := E.heapArrSort(st.heap, root+"!dom", fmt.Sprintf("(Array Int (Array %s Bool))", ks))
	cardA := E.heapArrSort(st.heap, root+"!card", "(Array Int Int)")
	oldCard := sx("select", cardA, m.S)
	st.heap[root+"!card"] = sx("store", cardA, m.S, sx("+", oldCard, ite(has, "0", "1")))
	st.heap[root+"!dom"] = sx("store", domA, m.S, sx("store", sx("select", domA, m.S), k.S, "true"))
	E.markWritten(st, root+"!dom")
	E.markWritten(st, root+"!card")
	var ls []leafInfo
	E.leafPaths(vt, "", &ls)
	sc := leaves(v)
	for i, l := range ls {
		comp := root + "!val" + l.Path
		a := E.heapArrSort(st.heap, comp, fmt.Sprintf("(Array Int (Array %s %s))", ks, l.Sort))
		st.heap[comp] = sx("store", a, m.S, sx("store", sx("select", a, m.S), k.S, sc[i].S))
		E.markWritten(st, comp)
	}
}

func (E *Engine) mapDelete(st *State, in ssa.Instruction, m, k *Val) {
	k = E.mapKey(k)
	root, ks, _ := E.mapInfo(m.T)
	has := E.mapHas(st.heap, m, k)
	st.assume(implies(eq(m.S, "0"), not(has)))
	domA := E.heapArrSort(st.heap, root+"!dom", fmt.Sprintf("(Array Int (Array %s Bool))", ks))
	cardA := E.heapArrSort(st.heap, root+"!card", "(Array Int Int)")
	oldCard := sx("select", cardA, m.S)
	st.assume(implies(has, sx(">=", oldCard, "1")))
	st.heap[root+"!card"] = sx("store", cardA, m.S, sx("-", oldCard, ite(has, "1", "0")))
	st.heap[root+"!dom"] = sx("store", domA, m.S, sx("store", sx("select", domA, m.S), k.S, "false"))
	E.markWritten(st, root+"!dom")
	E.markWritten(st, root+"!card")
	if call, ok := in.(*ssa.Call); ok && len(call.Call.Args) > 0 {
		E.lockCheckMap(st, in, call.Call.Args[0], true)
	}
}

func (E *Engine) makeMap(st *State, x *ssa.MakeMap) *Val {
	ref := E.newObject(st, "map")
	m := &Val{T: x.Type(), S: ref, Sort: SInt}
	root, ks, _ := E.mapInfo(x.Type())
	domA := E.heapArrSort(st.heap, root+"!dom", fmt.Sprintf("(Array Int (Array %s Bool))", ks))
	cardA := E.heapArrSort(st.heap, root+"!card", "(Array Int Int)")
	st.heap[root+"!dom"] = sx("store", domA, ref, fmt.Sprintf("((as const (Array %s Bool)) false)", ks))
	st.heap[root+"!card"] = sx("store", cardA, ref, "0")
	E.markWritten(st, root+"!dom")
	E.markWritten(st, root+"!card")
	return m
}

// Range/Next over maps: each Next yields an arbitrary key of the current
// domain that has not been yielded before (ghost visited set), or ends when
// all current keys were visited.
type iterState struct {
	m       *Val
	visited string // (Array K Bool)
	str     *Val
	idx     string
}

func (E *Engine) rangeInit(st *State, x *ssa.Range) *Val {
	v := E.val(st, x.X)
	id := E.freshConst("iter", SInt)
	if v.Sort == SStr {
		E.iters[id] = &iterState{str: v, idx: "0"}
		return &Val{T: x.Type(), S: id, Sort: SInt}
	}
	_, ks, _ := E.mapInfo(v.T)
	E.iters[id] = &iterState{m: v, visited: fmt.Sprintf("((as const (Array %s Bool)) false)", ks)}
	return &Val{T: x.Type(), S: id, Sort: SInt}
}

func (E *Engine) rangeNext(st *State, x *ssa.Next) []*State {
	itv := E.val(st, x.Iter)
	it := E.iters[itv.S]
	if it == nil {
		panic(engineErr("loop-carried iterator"))
	}
	if x.IsString {
		panic(engineErr("range over string"))
	}
	root, ks, vt := E.mapInfo(it.m.T)
	_ = root
	mk := types.Unalias(it.m.T).Underlying().(*types.Map).Key()
	var facts []string
	k := E.freshVal(mk, "rk", &facts)
	st.assume(facts...)
	ok := E.freshConst("more", SBool)
	has := E.mapHas(st.heap, it.m, k)
	vis := E.ghostVisited(st, itv.S, it)
	qk := E.freshName("k")
	dom := E.mapDom(st.heap, it.m)
	st.assume(implies(ok, and(has, not(sx("select", vis, E.mapKey(k).S)))),
		implies(not(ok), fmt.Sprintf("(forall ((%s %s)) (=> (select %s %s) (select %s %s)))", qk, ks, dom, qk, vis, qk)),
		implies(eq(it.m.S, "0"), not(ok)))
	// mark visited (per path)
	st.ghost["visited:"+itv.S] = sx("store", vis, E.mapKey(k).S, "true")
	v := E.mapGet(st.heap, it.m, k)
	st.assume(E.loadFacts(st, v)...)
	// keys and values held by a map are reachable objects: allocated, type invariants hold
	st.assume(E.allocFacts(st, k)...)
	E.assumeTypeInvs(st, k)
	E.assumeTypeInvs(st, v)
	_ = vt
	st.regs[x] = &Val{T: x.Type(), F: []*Val{boolVal(ok), k, v}}
	return nil
}

func (E *Engine) ghostVisited(st *State, id string, it *iterState) string {
	if v, ok := st.ghost["visited:"+id]; ok {
		return v
	}
	return it.visited
}

// ---------------------------------------------------------------------------
// Locks

type lockRef struct {
	ts    *TypeSpec
	spec  *LockSpec
	ref   string // object holding the lock
	T     types.Type
}

// lockOf resolves a *sync.Mutex / *sync.RWMutex argument to a declared lock.
func (E *Engine) lockOf(v *Val) *lockRef {
	if v.LV == nil || v.LV.Kind != lvHeap || len(v.LV.Path) == 0 {
		return nil
	}
	k := namedKey(v.LV.Root)
	ts := E.CS.Types[k]
	sh := E.shape(v.LV.Root)
	fname := sh.Fields[v.LV.Path[0].Field].Name
	lr := &lockRef{ts: ts, ref: v.LV.Ref, T: v.LV.Root}
	if ts != nil {
		lr.spec = ts.Locks[fname]
	}
	if lr.spec == nil {
		lr.spec = &LockSpec{Field: fname}
	}
	return lr
}

func lockID(ref, field string) string { return field + "@" + ref }

func (E *Engine) selfEnv(st *State, lr *lockRef, ctx *FileCtx) *cenv {
	self := &Val{T: types.NewPointer(lr.T), S: lr.ref, Sort: SInt}
	vars := map[string]*Val{"self": self}
	return &cenv{E: E, st: st, vars: vars, heap: st.heap, ctx: ctx, fc: E.cur}
}

func (E *Engine) concCall(st *State, in ssa.Instruction, key string, cc *ssa.CallCommon, args []*Val, res ssa.Value) ([]*State, bool) {
	switch key {
	case "(*sync.Mutex).Lock", "(*sync.RWMutex).Lock", "(*sync.RWMutex).RLock":
		lr := E.lockOf(args[0])
		if lr == nil {
			E.note("lock on an undeclared mutex location: ignored")
			return nil, true
		}
		mode := "w"
		if strings.HasSuffix(key, "RLock") {
			mode = "r"
		}
		id := lockID(lr.ref, lr.spec.Field)
		if _, held := st.locks[id]; held {
			E.oblige(st, "lock-reentry", E.site(in), "false", "mutex is not already held by this thread", E.pos(in), nil)
		}
		st.locks[id] = mode
		st.ghost["lockobj:"+id] = lr.ref
		if E.lockRefs == nil {
			E.lockRefs = map[string]*lockRef{}
		}
		E.lockRefs[id] = lr
		// havoc protected fields, assume the monitor invariant
		for _, f := range lr.spec.Protects {
			_, path, ok := findField(E, lr.T, f)
			if !ok {
				panic(engineErr("lock protects unknown field " + f))
			}
			lv := &LVal{Kind: lvHeap, Ref: lr.ref, Root: lr.T, Path: path}
			var facts []string
			nv := E.freshVal(E.lvType(lv), "locked:"+f, &facts)
			E.store(st, lv, nv)
			st.assume(facts...)
			st.assume(E.allocFacts(st, nv)...)
			E.havocProtectedContent(st, lv, nv)
		}
		for _, cl := range lr.spec.Inv {
			ev := E.selfEnv(st, lr, cl.Ctx)
			st.assume(ev.evalBool(cl.Expr))
		}
		for _, cl := range E.stableClauses(lr.ts) {
			ev := E.selfEnvRef(st, lr.ref, lr.T, cl.Ctx)
			st.assume(ev.evalBool(cl.Expr))
		}
		// remember the snapshot for RUnlock's "unchanged" check
		st.ghost["locksnap:"+id] = fmt.Sprint(len(E.snaps))
		st.ghost["lastsnap"] = fmt.Sprint(len(E.snaps))
		E.snaps = append(E.snaps, copyHeap(st.heap))
		st.log = append(st.log, CallEvent{Label: "lock", Args: []*Val{{T: types.NewPointer(lr.T), S: lr.ref, Sort: SInt}}, Heap: E.snaps[len(E.snaps)-1], HeapAfter: E.snaps[len(E.snaps)-1]})
		return nil, true
	case "(*sync.Mutex).Unlock", "(*sync.RWMutex).Unlock", "(*sync.RWMutex).RUnlock":
		lr := E.lockOf(args[0])
		if lr == nil {
			return nil, true
		}
		id := lockID(lr.ref, lr.spec.Field)
		mode, held := st.locks[id]
		want := "w"
		if strings.HasSuffix(key, "RUnlock") {
			want = "r"
		}
		if !held || mode != want {
			E.oblige(st, "unlock-not-held", E.site(in), "false", "unlock of a mutex held in the matching mode", E.pos(in), nil)
		}
		for i, cl := range lr.spec.Inv {
			ev := E.selfEnv(st, lr, cl.Ctx)
			E.oblige(st, "lock-inv", fmt.Sprintf("%s.%s.%d", E.site(in), lr.spec.Field, i), ev.evalBool(cl.Expr), "monitor invariant re-established: "+cl.Text, E.pos(in), cl)
		}
		delete(st.locks, id)
		st.ghost["lastunlock"] = fmt.Sprint(len(E.snaps))
		E.snaps = append(E.snaps, copyHeap(st.heap))
		st.log = append(st.log, CallEvent{Label: "unlock", Args: []*Val{{T: types.NewPointer(lr.T), S: lr.ref, Sort: SInt}}, Heap: E.snaps[len(E.snaps)-1], HeapAfter: E.snaps[len(E.snaps)-1]})
		return nil, true
	}
	if strings.HasPrefix(key, "(*sync/atomic.") && (strings.HasSuffix(key, ").Store") || strings.HasSuffix(key, ").CompareAndSwap") || strings.HasSuffix(key, ").Swap") || strings.HasSuffix(key, ").Add")) {
		// publication through an atomic: the stable predicates of the objects in scope must hold
		// once the new value is visible. The ledger contract of the method is applied first.
		E.pendingAtomic = true
	}
	if key == "(*sync.Once).Do" && len(args) == 2 {
		return E.onceDo(st, in, args[1]), true
	}
	return E.chanCall(st, in, key, cc, args, res)
}

// onceDo: o.Do(f) runs f at most once over all calls. Thread-modular: either this call runs f
// (f's contract is applied like a call) or f was run by an earlier / concurrent call (nothing
// is known). f's precondition is checked in both cases.
func (E *Engine) onceDo(st *State, in ssa.Instruction, fv *Val) []*State {
	if fv.Fn == nil {
		E.note("Once.Do with an unknown function value")
		E.havocAll(st, "Once.Do of unknown function")
		st.log = append(st.log, CallEvent{Label: "onceDo", Heap: copyHeap(st.heap)})
		return nil
	}
	spec := E.CS.Funcs[fv.Fn.Key]
	if spec == nil {
		E.note("Once.Do(%s): no contract; whole heap havoced", fv.Fn.Key)
		E.havocAll(st, "Once.Do "+fv.Fn.Key)
		st.log = append(st.log, CallEvent{Label: "onceDo", Heap: copyHeap(st.heap)})
		return nil
	}
	callee, _ := fv.Fn.Fn.(*ssa.Function)
	if callee == nil {
		E.havocAll(st, "Once.Do "+fv.Fn.Key)
		return nil
	}
	run := st.clone()
	E.applySpec(run, in, spec, callee, callee.Signature, nil, fv.Fn.Bindings, false)
	run.log = append(run.log, CallEvent{Label: "onceDo", Args: []*Val{boolVal("true")}, Heap: copyHeap(run.heap)})
	skip := st.clone()
	// the precondition must hold whether or not this call is the one that runs f
	{
		vars := map[string]*Val{}
		for i, v := range callee.FreeVars {
			if i < len(fv.Fn.Bindings) {
				nv := *fv.Fn.Bindings[i]
				if _, isPtr := types.Unalias(v.Type()).Underlying().(*types.Pointer); isPtr {
					nv.AutoDeref = true
				}
				vars[v.Name()] = &nv
			}
		}
		_ = vars
	}
	skip.log = append(skip.log, CallEvent{Label: "onceDo", Args: []*Val{boolVal("false")}, Heap: copyHeap(skip.heap)})
	return []*State{run, skip}
}

// havocProtectedContent: when a protected field is a map or slice, its
// contents are shared state too: havoc them on acquire.
func (E *Engine) havocProtectedContent(st *State, lv *LVal, nv *Val) {
	switch t := types.Unalias(nv.T).Underlying().(type) {
	case *types.Map:
		root, ks, vt := E.mapInfo(nv.T)
		domA := E.heapArrSort(st.heap, root+"!dom", fmt.Sprintf("(Array Int (Array %s Bool))", ks))
		st.heap[root+"!dom"] = sx("store", domA, nv.S, E.freshConst("dom", fmt.Sprintf("(Array %s Bool)", ks)))
		cardA := E.heapArrSort(st.heap, root+"!card", "(Array Int Int)")
		c := E.freshConst("card", SInt)
		st.assume(sx(">=", c, "0"))
		st.heap[root+"!card"] = sx("store", cardA, nv.S, c)
		var ls []leafInfo
		E.leafPaths(vt, "", &ls)
		for _, l := range ls {
			comp := root + "!val" + l.Path
			a := E.heapArrSort(st.heap, comp, fmt.Sprintf("(Array Int (Array %s %s))", ks, l.Sort))
			st.heap[comp] = sx("store", a, nv.S, E.freshConst("mval", fmt.Sprintf("(Array %s %s)", ks, l.Sort)))
			E.markWritten(st, comp)
		}
		E.markWritten(st, root+"!dom")
		E.markWritten(st, root+"!card")
		_ = t
	}
}

// lockCheck: access to a protected field requires the lock.
func (E *Engine) lockCheck(st *State, in ssa.Instruction, lv *LVal, write bool) {
	if lv.Kind != lvHeap || len(lv.Path) == 0 {
		return
	}
	k := namedKey(lv.Root)
	ts := E.CS.Types[k]
	if ts == nil {
		return
	}
	sh := E.shape(lv.Root)
	fname := sh.Fields[lv.Path[0].Field].Name
	if _, shared := ts.Shared[fname]; shared && !write {
		// shared fields may be read without the lock (publication by close / atomic);
		// writes still need the lock when the field is also listed under `protects`
		return
	}
	for _, ls := range ts.Locks {
		for _, p := range ls.Protects {
			if p == fname {
				E.requireLock(st, in, lv.Ref, ls.Field, write, fname)
			}
		}
	}
}

func (E *Engine) requireLock(st *State, in ssa.Instruction, ref, lockField string, write bool, fname string) {
	if E.cur.spec != nil {
		// constructors / functions declared to own the object exclusively
		for _, h := range E.cur.spec.Holds {
			if h == "exclusive" {
				return
			}
		}
	}
	var alts []string
	var ids []string
	for id := range st.locks {
		ids = append(ids, id)
	}
	sort.Strings(ids)
	for _, id := range ids {
		mode := st.locks[id]
		if !strings.HasPrefix(id, lockField+"@") {
			continue
		}
		if write && mode != "w" {
			continue
		}
		alts = append(alts, eq(ref, st.ghost["lockobj:"+id]))
	}
	// fresh objects (allocated in this activation) need no lock
	alts = append(alts, not(sx("select", E.cur.entryAlloc, ref)))
	what := "read"
	if write {
		what = "write"
	}
	E.oblige(st, "lock-held", E.site(in)+"."+fname, or(alts...), fmt.Sprintf("%s of %s holds lock %s in the required mode", what, fname, lockField), E.pos(in), nil)
}

// lockCheckMap: a map operation on a value loaded from a protected field.
func (E *Engine) lockCheckMap(st *State, in ssa.Instruction, mv ssa.Value, write bool) {
	u, ok := mv.(*ssa.UnOp)
	if !ok {
		return
	}
	fa, ok := u.X.(*ssa.FieldAddr)
	if !ok {
		return
	}
	base, ok := st.regs[fa.X]
	if !ok || base == nil {
		return
	}
	lv := E.ptrLV(base)
	n := &LVal{Kind: lv.Kind, Ref: lv.Ref, Root: lv.Root, Path: append(append([]pathStep{}, lv.Path...), pathStep{Field: fa.Field})}
	if write {
		E.lockCheck(st, in, n, true)
	}
}

func (E *Engine) requireHeld(st *State, in ssa.Instruction, vars map[string]*Val, h string, spec *FuncSpec) {
	if h == "exclusive" {
		return
	}
	// "holds recv.mu" / "holds mu" (receiver is first param)
	parts := strings.Split(h, ".")
	field := parts[len(parts)-1]
	var obj *Val
	if len(parts) == 2 {
		obj = vars[parts[0]]
	} else {
		for _, n := range E.paramNames(spec, E.Funcs[spec.Key], E.Funcs[spec.Key].Signature, 1, false) {
			obj = vars[n]
			break
		}
	}
	if obj == nil {
		panic(engineErr("holds: cannot resolve " + h))
	}
	var alts []string
	for id, mode := range st.locks {
		if strings.HasPrefix(id, field+"@") && mode == "w" {
			alts = append(alts, eq(obj.S, st.ghost["lockobj:"+id]))
		}
	}
	sort.Strings(alts)
	E.oblige(st, "lock-held", E.site(in)+"."+field, or(alts...), "callee requires lock "+h, E.pos(in), nil)
}

func (E *Engine) afterSpecCall(st *State, in ssa.Instruction, spec *FuncSpec, vars map[string]*Val) {}

func (E *Engine) exitChecks(st *State, in ssa.Instruction) {
	var ids []string
	for id := range st.locks {
		ids = append(ids, id)
	}
	sort.Strings(ids)
	entryHeld := map[string]bool{}
	for _, id := range ids {
		if st.ghost["entryheld:"+id] != "" {
			entryHeld[id] = true
		}
	}
	for _, id := range ids {
		if entryHeld[id] {
			continue
		}
		E.oblige(st, "lock-released", id[:strings.Index(id, "@")], "false", "lock released on every exit", E.pos(in), nil)
	}
}

func (ev *cenv) concPred(name string, args []*CExpr) *Val {
	E := ev.E
	switch name {
	case "closed":
		c := ev.eval(args[0])
		return boolVal(E.chanClosed(ev.heap, c))
	case "chancap":
		c := ev.eval(args[0])
		return intVal(E.chanCap(c))
	}
	ev.fail("unsupported predicate %s", name)
	return nil
}

func (E *Engine) doGo(st *State, x *ssa.Go) []*State {
	cc := &x.Call
	if cc.IsInvoke() {
		E.note("go on interface method: effects not tracked")
		return nil
	}
	fnv := E.val(st, cc.Value)
	var args []*Val
	for _, a := range cc.Args {
		args = append(args, E.val(st, a))
	}
	for _, a := range args {
		E.escapeVal(st, a)
	}
	E.escapeVal(st, fnv)
	if fnv.Fn == nil {
		E.note("go on unknown function value")
		E.havocAll(st, "go statement with unknown function")
		return nil
	}
	spec := E.CS.Funcs[fnv.Fn.Key]
	label := "go:" + shortKey(fnv.Fn.Key)
	if spec == nil {
		E.note("go %s: no thread contract; shared effects havoced", fnv.Fn.Key)
		E.havocAll(st, "go "+fnv.Fn.Key)
		st.log = append(st.log, CallEvent{Label: label, Args: args, Heap: copyHeap(st.heap)})
		return nil
	}
	if spec.Log != "" {
		label = spec.Log
	}
	// check the thread's precondition; nothing flows back except through shared state
	var callee *ssa.Function
	if f, ok := fnv.Fn.Fn.(*ssa.Function); ok {
		callee = f
	}
	names := E.paramNames(spec, callee, cc.Signature(), len(args), false)
	vars := map[string]*Val{}
	for i, n := range names {
		if i < len(args) {
			vars[n] = args[i]
		}
	}
	if callee != nil {
		for i, fv := range callee.FreeVars {
			if i < len(fnv.Fn.Bindings) {
				nv := *fnv.Fn.Bindings[i]
				if _, isPtr := types.Unalias(fv.Type()).Underlying().(*types.Pointer); isPtr {
					nv.AutoDeref = true
				}
				vars[fv.Name()] = &nv
			}
		}
	}
	for i, cl := range spec.Requires {
		ev := &cenv{E: E, st: st, vars: vars, heap: st.heap, ctx: cl.Ctx, fc: E.cur}
		f := ev.evalBool(cl.Expr)
		E.oblige(st, "requires@"+label, fmt.Sprintf("%s.%d", E.site(x), i), f, cl.Text, E.pos(x), nil)
	}
	all := append(append([]*Val{}, args...), fnv.Fn.Bindings...)
	st.log = append(st.log, CallEvent{Label: label, Args: all, Heap: copyHeap(st.heap)})
	return nil
}

// ---------------------------------------------------------------------------
// Type invariants over immutable fields: `type T` + `invariant <expr over self>`.
// Assumed for every non-nil *T obtained from a heap load or a call result;
// asserted for every *T handed to a callee. Sound because the fields an invariant
// mentions must be declared immutable (checked when the contracts are loaded).

func (E *Engine) typeInvsOf(T types.Type) (*TypeSpec, types.Type) {
	p, ok := types.Unalias(T).Underlying().(*types.Pointer)
	if !ok {
		return nil, nil
	}
	k := namedKey(p.Elem())
	if k == "" {
		return nil, nil
	}
	ts := E.CS.Types[k]
	if ts == nil || len(ts.Invs) == 0 {
		return nil, nil
	}
	return ts, p.Elem()
}

func (E *Engine) typeInvFormulas(st *State, v *Val) []string {
	if v == nil || v.F != nil || v.S == "" {
		return nil
	}
	ts, _ := E.typeInvsOf(v.T)
	if ts == nil {
		return nil
	}
	var out []string
	for _, cl := range ts.Invs {
		ev := &cenv{E: E, st: st, vars: map[string]*Val{"self": v}, heap: st.heap, ctx: cl.Ctx, fc: E.cur}
		out = append(out, implies(not(eq(v.S, "0")), ev.evalBool(cl.Expr)))
	}
	return out
}

func (E *Engine) assumeTypeInvs(st *State, v *Val) {
	if v == nil {
		return
	}
	if v.F != nil {
		for _, f := range v.F {
			E.assumeTypeInvs(st, f)
		}
		return
	}
	st.assume(E.typeInvFormulas(st, v)...)
}

func (E *Engine) checkTypeInvs(st *State, in ssa.Instruction, v *Val, what string) {
	if v == nil {
		return
	}
	if v.F != nil {
		for _, f := range v.F {
			E.checkTypeInvs(st, in, f, what)
		}
		return
	}
	for i, f := range E.typeInvFormulas(st, v) {
		E.oblige(st, "type-inv", fmt.Sprintf("%s.%d", E.site(in), i), f, "type invariant of "+shortTypeKey(v.T)+" holds for "+what, E.pos(in), nil)
	}
}

// ---------------------------------------------------------------------------
// Shared fields: `shared f [stable P(self)]` in a type block. A shared field is written and read
// by several threads without a lock (publication through a channel close, an atomic flag, ...).
// Thread-modular treatment: every read yields an arbitrary value satisfying the type's stable
// predicates; every write to a shared field, and every close of a channel (the predicates may
// speak about closed(..)), must re-establish the stable predicates of the object written / of
// the objects whose channel field was closed.

func (E *Engine) sharedField(lv *LVal) (*TypeSpec, string, bool) {
	if lv == nil || lv.Kind != lvHeap || len(lv.Path) == 0 || lv.Root == nil {
		return nil, "", false
	}
	ts := E.CS.Types[namedKey(lv.Root)]
	if ts == nil || len(ts.Shared) == 0 {
		return nil, "", false
	}
	sh := E.shape(lv.Root)
	if lv.Path[0].Field >= len(sh.Fields) {
		return nil, "", false
	}
	fname := sh.Fields[lv.Path[0].Field].Name
	_, ok := ts.Shared[fname]
	return ts, fname, ok
}

func (E *Engine) stableClauses(ts *TypeSpec) []*Clause {
	var out []*Clause
	seen := map[*Clause]bool{}
	var names []string
	for n := range ts.Shared {
		names = append(names, n)
	}
	sort.Strings(names)
	for _, n := range names {
		if cl := ts.Shared[n]; cl != nil && !seen[cl] {
			seen[cl] = true
			out = append(out, cl)
		}
	}
	return out
}

func (E *Engine) selfEnvRef(st *State, ref string, T types.Type, ctx *FileCtx) *cenv {
	self := &Val{T: types.NewPointer(T), S: ref, Sort: SInt}
	return &cenv{E: E, st: st, vars: map[string]*Val{"self": self}, heap: st.heap, ctx: ctx, fc: E.cur}
}

func (E *Engine) sharedRead(st *State, lv *LVal) {
	ts, fname, ok := E.sharedField(lv)
	if !ok {
		return
	}
	// a field that is also protected by a lock this thread holds cannot change under its feet
	for _, ls := range ts.Locks {
		for _, pf := range ls.Protects {
			if pf != fname {
				continue
			}
			for id := range st.locks {
				if strings.HasPrefix(id, ls.Field+"@") && foldBool(eq(st.ghost["lockobj:"+id], lv.Ref)) == "true" {
					return
				}
			}
		}
	}
	flv := &LVal{Kind: lvHeap, Ref: lv.Ref, Root: lv.Root, Path: lv.Path[:1]}
	var facts []string
	nv := E.freshVal(E.lvType(flv), "shared:"+fname, &facts)
	E.store(st, flv, nv)
	st.assume(facts...)
	st.assume(E.allocFacts(st, nv)...)
	for _, cl := range E.stableClauses(ts) {
		ev := E.selfEnvRef(st, lv.Ref, lv.Root, cl.Ctx)
		st.assume(ev.evalBool(cl.Expr))
	}
}

func (E *Engine) sharedWrite(st *State, in ssa.Instruction, lv *LVal) {
	ts, fname, ok := E.sharedField(lv)
	if !ok || E.dry > 0 {
		return
	}
	for i, cl := range E.stableClauses(ts) {
		if cl.Kind == "assumed-stable" {
			continue
		}
		ev := E.selfEnvRef(st, lv.Ref, lv.Root, cl.Ctx)
		ev.goal = true
		E.oblige(st, "shared-stable", fmt.Sprintf("%s.%s.%d", E.site(in), fname, i), ev.evalBool(cl.Expr), "write to shared field "+fname+" keeps: "+cl.Text, E.pos(in), cl)
	}
}

// sharedStableCheckAll: after a channel close, the stable predicates of every object of a type
// with shared fields that this activation has touched (as receiver/parameter/free variable)
// must still hold.
func (E *Engine) sharedStableCheckAll(st *State, in ssa.Instruction, site string) {
	if E.dry > 0 {
		return
	}
	seen := map[string]bool{}
	var names []string
	for n := range st.env {
		names = append(names, n)
	}
	sort.Strings(names)
	for _, n := range names {
		v := st.env[n]
		if v == nil || v.T == nil || v.S == "" {
			continue
		}
		p, ok := types.Unalias(v.T).Underlying().(*types.Pointer)
		if !ok {
			continue
		}
		ts := E.CS.Types[namedKey(p.Elem())]
		if ts == nil || len(ts.Shared) == 0 || seen[v.S] {
			continue
		}
		seen[v.S] = true
		for i, cl := range E.stableClauses(ts) {
			// only predicates that speak about the kind of event that just happened
			if strings.HasPrefix(site, "atomic#") && !strings.Contains(cl.Text, "atomicwas(") {
				continue
			}
			if strings.HasPrefix(site, "close#") && !strings.Contains(cl.Text, "closed(") {
				continue
			}
			if cl.Kind == "assumed-stable" {
				continue
			}
			ev := E.selfEnvRef(st, v.S, p.Elem(), cl.Ctx)
			ev.goal = true
			E.oblige(st, "shared-stable", fmt.Sprintf("%s.%s.%d", site, n, i), or(eq(v.S, "0"), ev.evalBool(cl.Expr)), "close keeps: "+cl.Text, E.pos(in), cl)
		}
	}
}

// ---------------------------------------------------------------------------
// Contribution ghosts: `tracks f by g` in a type block (g a declared ghost int field).
// g is thread-local auxiliary state: this thread's net contribution to the shared counter f.
// Every write f := v by this thread adds (v - old f) to g; g must stay >= 0 (a thread never
// gives back more than it took). The global fact f = sum over threads of g_t, all g_t >= 0,
// justifies a monitor invariant `self.f >= self.g`; it is the rely of every thread and each
// thread's guarantee is exactly the two rules above.
func (E *Engine) trackWrite(st *State, in ssa.Instruction, lv *LVal, nv *Val) {
	if lv == nil || lv.Kind != lvHeap || len(lv.Path) != 1 || lv.Root == nil {
		return
	}
	k := namedKey(lv.Root)
	ts := E.CS.Types[k]
	if ts == nil || len(ts.Tracks) == 0 {
		return
	}
	sh := E.shape(lv.Root)
	fname := sh.Fields[lv.Path[0].Field].Name
	g, ok := ts.Tracks[fname]
	if !ok {
		return
	}
	old := E.load(st, st.heap, lv)
	glv := E.ghostFieldLV(lv.Root, lv.Ref, g)
	if glv == nil {
		panic(engineErr("tracks: " + g + " is not a declared ghost field"))
	}
	cur := E.load(st, st.heap, glv)
	upd := sx("+", cur.S, sx("-", nv.S, old.S))
	if E.dry == 0 {
		E.oblige(st, "tracker-nonneg", E.site(in)+"."+fname, sx(">=", upd, "0"), "this thread never gives back more of "+fname+" than it took ("+g+" >= 0)", E.pos(in), nil)
	}
	E.store(st, glv, &Val{T: cur.T, S: upd, Sort: SInt})
}

// heldProtected: the heap cells (component, object) protected by locks this thread holds in
// write mode. A callee that havocs the heap cannot have changed them: it runs in this thread,
// cannot acquire the (non-reentrant) lock again, and writing without the lock fails its own
// lock-held obligation.
func (E *Engine) heldProtected(st *State) [][2]string {
	var out [][2]string
	var ids []string
	for id := range st.locks {
		ids = append(ids, id)
	}
	sort.Strings(ids)
	for _, id := range ids {
		lr := E.lockRefs[id]
		if lr == nil {
			continue
		}
		for _, f := range lr.spec.Protects {
			_, path, ok := findField(E, lr.T, f)
			if !ok {
				continue
			}
			lv := &LVal{Kind: lvHeap, Ref: st.ghost["lockobj:"+id], Root: lr.T, Path: path}
			for _, comp := range E.modComps(&modItem{lv: lv}) {
				out = append(out, [2]string{comp, lv.Ref})
			}
			// the contents of a protected map are protected too
			if ft := E.lvType(lv); ft != nil {
				if _, isMap := types.Unalias(ft).Underlying().(*types.Map); isMap {
					mv := E.load(st, st.heap, lv)
					root, _, vt := E.mapInfo(ft)
					out = append(out, [2]string{root + "!dom", mv.S}, [2]string{root + "!card", mv.S})
					var ls []leafInfo
					E.leafPaths(vt, "", &ls)
					for _, l := range ls {
						out = append(out, [2]string{root + "!val" + l.Path, mv.S})
					}
				}
			}
		}
	}
	return out
}
