package gocv

import (
	"fmt"
	"strings"
)

// Per-write frame discipline. Invariant maintained at every program point of a
// function without `modifies *`:
//
//	for every object r allocated at function entry that is not named by the
//	modifies clause, every heap component at r still has its entry value.
//
// Every store / callee effect is checked against it (frame-write), so the
// invariant may be assumed for the fresh arrays introduced by a loop havoc.

// allowedFor returns the exclusion formula "location (k[,j]) is named by the
// modifies clause" for a component, and whether the whole component is free.
// sharedComp: components that hold lock-protected shared state (protected fields of types
// with a lock declaration, and the contents of maps): a function that takes locks gives no
// frame guarantee about them — their values change under it whenever the lock is free.
func (E *Engine) sharedComp(comp string) bool {
	if strings.HasPrefix(comp, "map<") {
		return true
	}
	i := strings.Index(comp, "!")
	if i < 0 {
		return false
	}
	ts := E.CS.Types[comp[:i]]
	if ts == nil {
		return false
	}
	f := comp[i+1:]
	if j := strings.IndexAny(f, ".#["); j >= 0 {
		f = f[:j]
	}
	for _, ls := range ts.Locks {
		for _, p := range ls.Protects {
			if p == f {
				return true
			}
		}
	}
	return false
}

func (E *Engine) allowedFor(comp string, k, j string) (string, bool) {
	c := E.cur
	if E.sharedComp(comp) {
		return "true", true
	}
	if c.spec != nil && E.isPreserved(c.spec, comp) {
		return "false", false // only objects created in this activation may be written
	}
	if c.spec == nil || c.spec.ModAll {
		return "true", true
	}
	if c.modCache == nil {
		c.modCache = map[string][]*modItem{}
		c.modWhole = map[string]bool{}
	}
	var alts []string
	for _, mi := range c.modLVs {
		if mi.comp != "" {
			if comp == mi.comp || strings.HasPrefix(comp, mi.comp+".") || strings.HasPrefix(comp, mi.comp+"#") {
				return "true", true
			}
			continue
		}
		lv := mi.lv
		if lv.Kind != lvHeap && lv.Kind != lvElem {
			continue
		}
		hit := false
		for _, mc := range E.modCompsStatic(mi) {
			if mc == comp {
				hit = true
				break
			}
		}
		if !hit {
			continue
		}
		if lv.Kind == lvElem && !mi.allElems && j != "" {
			alts = append(alts, and(eq(k, lv.Ref), eq(j, lv.Idx)))
		} else if lv.Kind == lvElem && mi.allElems && j != "" && mi.lo != "" {
			alts = append(alts, and(eq(k, lv.Ref), sx("<=", mi.lo, j), sx("<", j, mi.hi)))
		} else {
			alts = append(alts, eq(k, lv.Ref))
		}
	}
	return or(alts...), false
}

// modCompsStatic: like modComps but independent of which components exist yet.
func (E *Engine) modCompsStatic(mi *modItem) []string {
	lv := mi.lv
	prefix, _ := E.lvPrefix(lv)
	var root string
	if lv.Kind == lvElem {
		root = elemsRoot(lv.Root)
	} else {
		root = E.rootOf(lv)
	}
	var ls []leafInfo
	E.leafPaths(E.lvType(lv), "", &ls)
	var out []string
	for _, l := range ls {
		out = append(out, compName(root, joinLeaf(prefix, l.Path)))
	}
	return out
}

// checkWrite emits the frame-write obligation for a write to comp at (ref[,idx]).
func (E *Engine) checkWrite(st *State, comp, ref, idx, what string) {
	c := E.cur
	if E.dry > 0 || c.spec == nil || c.fn == nil || E.isImmutable(comp) {
		return
	}
	if c.spec.ModAll && !E.isPreserved(c.spec, comp) {
		return
	}
	allowed, whole := E.allowedFor(comp, ref, idx)
	if whole {
		return
	}
	goal := or(not(sx("select", c.entryAlloc, ref)), allowed)
	site := comp
	if E.curInstr != nil {
		site = E.site(E.curInstr) + "." + comp
	}
	pos := ""
	if E.curInstr != nil {
		pos = E.pos(E.curInstr)
	}
	E.oblige(st, "frame-write", site, goal, what+" writes only fresh objects or locations in the modifies clause ("+comp+")", pos, nil)
}

// frameAxiom: the array `arr` (introduced by a havoc) agrees with the entry
// heap on all entry-allocated objects outside the modifies clause.
func (E *Engine) frameAxiom(comp, arr, full string) string {
	c := E.cur
	if c.spec == nil || c.spec.ModAll || c.fn == nil {
		return "true"
	}
	old := E.heapArrSort(c.entryHeap, comp, full)
	k := E.freshName("k")
	if strings.HasPrefix(full, "(Array Int (Array") {
		j := E.freshName("j")
		allowed, whole := E.allowedFor(comp, k, j)
		if whole {
			return "true"
		}
		ksort := "Int"
		if i := strings.Index(full, "(Array Int (Array "); i == 0 {
			rest := full[len("(Array Int (Array "):]
			ksort = strings.Fields(rest)[0]
		}
		return fmt.Sprintf("(forall ((%s Int) (%s %s)) (! (=> (and (select %s %s) (not %s)) (= (select (select %s %s) %s) (select (select %s %s) %s))) :pattern ((select (select %s %s) %s))))",
			k, j, ksort, c.entryAlloc, k, allowed, arr, k, j, old, k, j, arr, k, j)
	}
	allowed, whole := E.allowedFor(comp, k, "")
	if whole {
		return "true"
	}
	return fmt.Sprintf("(forall ((%s Int)) (! (=> (and (select %s %s) (not %s)) (= (select %s %s) (select %s %s))) :pattern ((select %s %s))))",
		k, c.entryAlloc, k, allowed, arr, k, old, k, arr, k)
}

// preservedPrefixes resolves the `preserves` clause into component-name prefixes.
func (E *Engine) preservedPrefixes(spec *FuncSpec) []string {
	if spec == nil || len(spec.Preserves) == 0 {
		return nil
	}
	if spec.presCache != nil {
		return spec.presCache
	}
	ev := &cenv{E: E, ctx: spec.Ctx, vars: map[string]*Val{}}
	var out []string
	for _, e := range spec.Preserves {
		if e.Op == "call" && e.Args[0].Op == "ident" && len(e.Args) == 2 {
			switch e.Args[0].Name {
			case "comp":
				out = append(out, E.compFromExpr(ev, e.Args[1]))
				continue
			case "elemsof":
				out = append(out, elemsRoot(ev.typeFromExpr(e.Args[1]))+"!")
				continue
			}
		}
		panic(engineErr("preserves: expected comp(T[.f]) or elemsof(T): " + e.String()))
	}
	spec.presCache = out
	return out
}

func compHasPrefix(comp, p string) bool {
	if comp == p {
		return true
	}
	if strings.HasSuffix(p, "!") {
		return strings.HasPrefix(comp, p)
	}
	return strings.HasPrefix(comp, p+".") || strings.HasPrefix(comp, p+"#")
}

func (E *Engine) isPreserved(spec *FuncSpec, comp string) bool {
	for _, p := range E.preservedPrefixes(spec) {
		if compHasPrefix(comp, p) {
			return true
		}
	}
	return false
}
