package gocv

import (
	"fmt"
	"go/types"
	"os"
	"runtime/debug"
	"strings"

	"golang.org/x/tools/go/ssa"
)

// ---------------------------------------------------------------------------
// Private objects.
//
// An object allocated by the function under verification whose address was never written to
// memory, boxed into an aggregate interface value, or handed to other code (call argument,
// closure binding, goroutine, deferred call, channel, map) cannot be reached by a callee: a
// callee's `modifies *` leaves its cells alone. Tracking is syntactic and per path: the reference
// of a fresh object is a unique constant, and a term that does not mention that constant cannot
// denote the object — the only symbols introduced later that could are those of a loop cut, and a
// private reference that flows into a loop-carried variable (header phi or local cell written in
// the loop), or that escapes anywhere in the loop body, stops being private at the cut (found by
// the dry run of the body). havocAll keeps the cells of the objects that are still private.
// `private(x)` in a contract is decided here, not by the solver.

const privKey = "privset"

type privEnt struct{ ref, root string }

func privSet(st *State) []privEnt {
	s := st.ghost[privKey]
	if s == "" {
		return nil
	}
	var out []privEnt
	for _, e := range strings.Split(s, "\x00") {
		i := strings.Index(e, "\x01")
		out = append(out, privEnt{e[:i], e[i+1:]})
	}
	return out
}

func setPrivSet(st *State, es []privEnt) {
	var sb []string
	for _, e := range es {
		sb = append(sb, e.ref+"\x01"+e.root)
	}
	st.ghost[privKey] = strings.Join(sb, "\x00")
}

// privNew: ref is a new object whose cells live in the components with prefix root.
func (E *Engine) privNew(st *State, ref, root string) {
	setPrivSet(st, append(privSet(st), privEnt{ref, root}))
}

func (E *Engine) privDrop(st *State, ref string) {
	if os.Getenv("VERIF_PRIV_DEBUG") != "" {
		fmt.Fprintf(os.Stderr, "privDrop %s dry=%d\n%s\n", ref, E.dry, debug.Stack())
	}
	es := privSet(st)
	var out []privEnt
	for _, e := range es {
		if e.ref != ref {
			out = append(out, e)
		}
	}
	setPrivSet(st, out)
	for _, m := range E.dryEsc {
		m[ref] = true
	}
}

func (E *Engine) isPrivate(st *State, ref string) bool {
	for _, e := range privSet(st) {
		if e.ref == ref {
			return true
		}
	}
	return false
}

// mayDenote: can term t evaluate to the (still private) reference ref? A private reference was
// never written to memory, so a term read from memory — (select ...) — cannot be it, even when ref
// occurs inside as the index; a conditional may be it if a branch may; any other term that
// mentions ref is treated as if it may.
func mayDenote(t, ref string) bool {
	if !strings.Contains(t, ref) {
		return false
	}
	t = strings.TrimSpace(t)
	if t == ref {
		return true
	}
	if !strings.HasPrefix(t, "(") {
		return false // another atom that merely contains ref's text
	}
	parts := splitSexp(t)
	if len(parts) == 0 {
		return true
	}
	switch parts[0] {
	case "select":
		return false
	case "ite":
		if len(parts) == 4 {
			return mayDenote(parts[2], ref) || mayDenote(parts[3], ref)
		}
	}
	return true
}

// splitSexp splits "(f a b ...)" into f, a, b, ... (|quoted symbols| and nesting respected).
func splitSexp(t string) []string {
	if len(t) < 2 || t[0] != '(' || t[len(t)-1] != ')' {
		return nil
	}
	body := t[1 : len(t)-1]
	var out []string
	depth, start, inBar := 0, -1, false
	for i := 0; i < len(body); i++ {
		c := body[i]
		if inBar {
			if c == '|' {
				inBar = false
			}
			continue
		}
		switch {
		case c == '|':
			inBar = true
			if start < 0 {
				start = i
			}
		case c == '(':
			if start < 0 {
				start = i
			}
			depth++
		case c == ')':
			depth--
		case c == ' ' || c == '\n' || c == '\t':
			if depth == 0 && start >= 0 {
				out = append(out, body[start:i])
				start = -1
			}
		default:
			if start < 0 {
				start = i
			}
		}
	}
	if start >= 0 {
		out = append(out, body[start:])
	}
	return out
}

func (E *Engine) mentions(v *Val, ref string) bool {
	if v == nil {
		return false
	}
	if v.LV != nil && (mayDenote(v.LV.Ref, ref) || strings.Contains(v.LV.Idx, ref)) {
		return true
	}
	if v.Fn != nil {
		for _, b := range v.Fn.Bindings {
			if E.mentions(b, ref) {
				return true
			}
		}
		if E.mentions(v.Fn.Recv, ref) {
			return true
		}
	}
	if v.F != nil {
		if v.T != nil {
			switch E.shape(v.T).Kind {
			case "slice":
				return mayDenote(v.F[0].S, ref)
			case "iface":
				if len(v.F) == 2 {
					return mayDenote(v.F[1].S, ref)
				}
			}
		}
		for _, f := range v.F {
			if E.mentions(f, ref) {
				return true
			}
		}
		return false
	}
	if v.S == "" {
		return false
	}
	if v.T != nil {
		switch u := types.Unalias(v.T).Underlying().(type) {
		case *types.Basic:
			if u.Kind() != types.UnsafePointer && u.Kind() != types.Uintptr {
				return false // numbers, strings, booleans are not references
			}
		}
	}
	return mayDenote(v.S, ref)
}

// escapeVal: every private object v may refer to can from now on be reached by other code.
func (E *Engine) escapeVal(st *State, v *Val) {
	if v == nil || st.ghost[privKey] == "" {
		return
	}
	for _, e := range privSet(st) {
		if E.mentions(v, e.ref) {
			E.privDrop(st, e.ref)
		}
	}
}

type privCell struct{ comp, ref, val, sort string }

// privKeep is called by havocAll before the heap is dropped: the cells (rows) of the private objects.
func (E *Engine) privKeep(st *State) []privCell {
	ps := privSet(st)
	if len(ps) == 0 {
		return nil
	}
	var out []privCell
	for comp, term := range st.heap {
		if strings.HasPrefix(comp, "var<") || strings.HasPrefix(comp, "\x00") {
			continue
		}
		srt, ok := E.cur.compSort[comp]
		if !ok {
			continue
		}
		for _, r := range ps {
			if strings.HasPrefix(comp, r.root) {
				out = append(out, privCell{comp, r.ref, sx("select", term, r.ref), srt})
			}
		}
	}
	return out
}

func (E *Engine) privRestore(st *State, cells []privCell) {
	for _, c := range cells {
		a := E.heapArrSort(st.heap, c.comp, c.sort)
		st.heap[c.comp] = sx("store", a, c.ref, c.val)
	}
}

// privDryBack: a dry-run path reached the back edge of loop li from block `from`: private
// references that flow into a header phi or into a local cell written in the loop are carried
// into the next iteration under a new name, so they stop being private at the cut.
func (E *Engine) privDryBack(st *State, li *loopInfo, from *ssa.BasicBlock) {
	if st.ghost[privKey] == "" {
		return
	}
	idx := -1
	for i, p := range li.Header.Preds {
		if p == from {
			idx = i
		}
	}
	for _, in := range li.Header.Instrs {
		phi, ok := in.(*ssa.Phi)
		if !ok {
			break
		}
		if idx >= 0 && idx < len(phi.Edges) {
			func() {
				defer func() { recover() }()
				E.escapeVal(st, E.val(st, phi.Edges[idx]))
			}()
		}
	}
	for cell := range st.cellsWritten {
		E.escapeVal(st, st.cells[cell])
	}
}
