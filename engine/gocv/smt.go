package gocv

import (
	"bytes"
	"context"
	"fmt"
	"math/big"
	"os"
	"os/exec"
	"path/filepath"
	"regexp"
	"sort"
	"strings"
	"sync"
	"time"
)

// ---------------------------------------------------------------------------
// SMT term helpers. Terms are plain s-expression strings; sorts are strings.

const (
	SInt  = "Int"
	SBool = "Bool"
	SStr  = "Str"
)

func sx(op string, args ...string) string {
	if len(args) == 0 {
		return op
	}
	if op == "select" && len(args) == 2 {
		return selSimp(args[0], args[1])
	}
	return "(" + op + " " + strings.Join(args, " ") + ")"
}

// splitTop3 splits "(store A I V)" into its three arguments.
func splitArgs(t string) []string {
	if len(t) < 2 || t[0] != '(' {
		return nil
	}
	body := t[1 : len(t)-1]
	var out []string
	d := 0
	inbar := false
	st := 0
	for i := 0; i < len(body); i++ {
		c := body[i]
		if c == '|' {
			inbar = !inbar
		}
		if inbar {
			continue
		}
		switch c {
		case '(':
			d++
		case ')':
			d--
		case ' ':
			if d == 0 {
				if i > st {
					out = append(out, body[st:i])
				}
				st = i + 1
			}
		}
	}
	if st < len(body) {
		out = append(out, body[st:])
	}
	return out
}

// selSimp: select over store with a syntactically identical (or provably
// different constant) index is resolved at construction time.
func selSimp(a, i string) string {
	for strings.HasPrefix(a, "(store ") {
		parts := splitArgs(a)
		if len(parts) != 4 {
			break
		}
		if parts[2] == i {
			return parts[3]
		}
		ci, ok1 := isConstTerm(parts[2])
		cj, ok2 := isConstTerm(i)
		if ok1 && ok2 && ci.Cmp(cj) != 0 {
			a = parts[1]
			continue
		}
		break
	}
	if strings.HasPrefix(a, "((as const ") {
		// ((as const (Array K V)) v)
		if j := strings.LastIndex(a, ")) "); j > 0 && strings.HasSuffix(a, ")") {
			return a[j+3 : len(a)-1]
		}
	}
	return "(select " + a + " " + i + ")"
}

func qsym(s string) string {
	// quoted symbol; '|' and '\' are not allowed inside
	s = strings.NewReplacer("|", "!", "\\", "!").Replace(s)
	return "|" + s + "|"
}

func intLit(n int64) string {
	if n < 0 {
		return fmt.Sprintf("(- %d)", -n)
	}
	return fmt.Sprintf("%d", n)
}

func bigLit(n *big.Int) string {
	if n.Sign() < 0 {
		return "(- " + new(big.Int).Neg(n).String() + ")"
	}
	return n.String()
}

func pow2(k uint) *big.Int { return new(big.Int).Lsh(big.NewInt(1), k) }

func and(xs ...string) string {
	var ys []string
	for _, x := range xs {
		if x == "true" || x == "" {
			continue
		}
		if x == "false" {
			return "false"
		}
		ys = append(ys, x)
	}
	switch len(ys) {
	case 0:
		return "true"
	case 1:
		return ys[0]
	}
	return sx("and", ys...)
}

func or(xs ...string) string {
	var ys []string
	for _, x := range xs {
		if x == "false" || x == "" {
			continue
		}
		if x == "true" {
			return "true"
		}
		ys = append(ys, x)
	}
	switch len(ys) {
	case 0:
		return "false"
	case 1:
		return ys[0]
	}
	return sx("or", ys...)
}

func not(x string) string {
	switch x {
	case "true":
		return "false"
	case "false":
		return "true"
	}
	if strings.HasPrefix(x, "(not ") && strings.HasSuffix(x, ")") && balanced(x[5:len(x)-1]) {
		return x[5 : len(x)-1]
	}
	return sx("not", x)
}

func balanced(s string) bool {
	d := 0
	inbar := false
	for i := 0; i < len(s); i++ {
		c := s[i]
		if c == '|' {
			inbar = !inbar
			continue
		}
		if inbar {
			continue
		}
		if c == '(' {
			d++
		} else if c == ')' {
			d--
			if d < 0 {
				return false
			}
		} else if c == ' ' && d == 0 {
			return false
		}
	}
	return d == 0
}

func implies(a, b string) string {
	if a == "true" {
		return b
	}
	if b == "true" {
		return "true"
	}
	return sx("=>", a, b)
}

func ite(c, a, b string) string {
	if c == "true" {
		return a
	}
	if c == "false" {
		return b
	}
	if a == b {
		return a
	}
	return sx("ite", c, a, b)
}

func eq(a, b string) string {
	if a == b {
		return "true"
	}
	if ca, ok := isConstTerm(a); ok {
		if cb, ok2 := isConstTerm(b); ok2 {
			if ca.Cmp(cb) == 0 {
				return "true"
			}
			return "false"
		}
	}
	return sx("=", a, b)
}

// ---------------------------------------------------------------------------
// A Query is one proof obligation rendered as SMT-LIB.

type Decl struct {
	Name string // already quoted if needed
	Sig  string // e.g. "() Int" or "(Int Int) Bool"
}

type SolverResult struct {
	Status string // unsat | sat | unknown | timeout | error
	Solver string
	Ms     int64
	Output string // transcript (truncated)
	Model  map[string]string
	Values []string // positional get-value answers
	All    []string // per-solver one-line summaries
}

type solverSpec struct {
	name string
	args func(file string, tsec int) []string
}

var ematchSolver = solverSpec{"z3-new-ematch", func(f string, t int) []string {
	return []string{"z3-new", fmt.Sprintf("-T:%d", t), "smt.auto_config=false", "smt.mbqi=false", f}
}}

var solvers = []solverSpec{
	{"z3-new", func(f string, t int) []string { return []string{"z3-new", fmt.Sprintf("-T:%d", t), f} }},
	{"z3", func(f string, t int) []string { return []string{"z3", fmt.Sprintf("-T:%d", t), f} }},
	{"cvc5", func(f string, t int) []string {
		return []string{"cvc5", fmt.Sprintf("--tlimit=%d", t*1000), "--produce-models", f}
	}},
}

var solverSem = make(chan struct{}, 24)

func runOne(ctx context.Context, sp solverSpec, file string, tsec int) (string, string, int64) {
	solverSem <- struct{}{}
	defer func() { <-solverSem }()
	a := sp.args(file, tsec)
	cctx, cancel := context.WithTimeout(ctx, time.Duration(tsec+2)*time.Second)
	defer cancel()
	cmd := exec.CommandContext(cctx, a[0], a[1:]...)
	var out bytes.Buffer
	cmd.Stdout = &out
	cmd.Stderr = &out
	t0 := time.Now()
	_ = cmd.Run()
	ms := time.Since(t0).Milliseconds()
	s := out.String()
	first := strings.TrimSpace(strings.SplitN(s, "\n", 2)[0])
	switch first {
	case "unsat", "sat", "unknown", "timeout":
	default:
		if strings.Contains(s, "(error ") {
			return "error", s, ms
		}
		if cctx.Err() != nil {
			first = "timeout"
		} else if strings.Contains(s, "timeout") {
			first = "timeout"
		} else {
			first = "error"
		}
	}
	return first, s, ms
}

// Solve races the installed solvers on one SMT file. Strategy: z3-new first with
// a short budget; if it does not decide, run all three with the full budget.
// thorough: all three always; sat from any solver wins over unsat.
func Solve(file string, tsec int, thorough bool) SolverResult {
	ctx := context.Background()
	res := SolverResult{Status: "unknown"}
	type r struct {
		st, out string
		ms      int64
		name    string
	}
	specs := append([]solverSpec{ematchSolver}, solvers...)
	// second wave, started only when the first has no verdict after a few seconds: the same
	// solvers with other random seeds (quantifier instantiation order is seed dependent; slow
	// queries are the unstable ones)
	var wave2 []solverSpec
	for _, seed := range []int{3, 7, 11} {
		seed := seed
		wave2 = append(wave2, solverSpec{fmt.Sprintf("z3-new-seed%d", seed), func(f string, t int) []string {
			return []string{"z3-new", fmt.Sprintf("-T:%d", t), fmt.Sprintf("smt.random_seed=%d", seed), fmt.Sprintf("sat.random_seed=%d", seed), f}
		}})
	}
	wave2 = append(wave2, solverSpec{"z3-seed5", func(f string, t int) []string {
		return []string{"z3", fmt.Sprintf("-T:%d", t), "smt.random_seed=5", f}
	}})
	ch := make(chan r, len(specs)+len(wave2))
	cctx, cancel := context.WithCancel(ctx)
	defer cancel()
	launch := func(sp solverSpec, t int) {
		go func() {
			if sp.name == ematchSolver.name && t > 3 {
				t = 3
			}
			st, out, ms := runOne(cctx, sp, file, t)
			ch <- r{st, out, ms, sp.name}
		}()
	}
	for _, sp := range specs {
		launch(sp, tsec)
	}
	pending := len(specs)
	var wave2At <-chan time.Time
	if tsec > 6 {
		wave2At = time.After(3 * time.Second)
	}
	var unsatR, satR *r
loop:
	for pending > 0 {
		select {
		case <-wave2At:
			wave2At = nil
			for _, sp := range wave2 {
				launch(sp, tsec-3)
			}
			pending += len(wave2)
		case x := <-ch:
			pending--
			x2 := x
			res.All = append(res.All, fmt.Sprintf("%s:%s:%dms", x.name, x.st, x.ms))
			// the e-matching-only configuration cannot produce trustworthy models
			if x.st == "sat" && x.name != ematchSolver.name && satR == nil {
				satR = &x2
				if !thorough {
					break loop
				}
			}
			if x.st == "unsat" && unsatR == nil {
				unsatR = &x2
				// a proof is a proof: no need to wait for the slower solvers
				break loop
			}
		}
	}
	cancel()
	switch {
	case satR != nil:
		res.Status, res.Solver, res.Ms, res.Output = "sat", satR.name, satR.ms, trunc(satR.out, 4000)
		res.Model = parseModel(satR.out)
		res.Values = parseValues(satR.out)
	case unsatR != nil:
		res.Status, res.Solver, res.Ms, res.Output = "unsat", unsatR.name, unsatR.ms, "unsat"
	default:
		res.Status = "unknown"
		res.Output = strings.Join(res.All, " ")
	}
	return res
}

// runCover: the query asserts only the path condition ("goal false"): unsat means the
// path condition is contradictory (vacuity). sat / unknown / timeout all count as reachable.
func runCover(file string) SolverResult {
	ctx := context.Background()
	st, _, ms := runOne(ctx, solvers[0], file, 2)
	res := SolverResult{Solver: "cover:" + st, Ms: ms, All: []string{fmt.Sprintf("z3-new:%s:%dms", st, ms)}}
	if st == "unsat" {
		st2, _, ms2 := runOne(ctx, solvers[2], file, 2)
		res.All = append(res.All, fmt.Sprintf("cvc5:%s:%dms", st2, ms2))
		res.Status = "vacuous"
		res.Output = "the assumptions on this path are contradictory (vacuity)"
		return res
	}
	res.Status = "unsat" // reachable: check discharged
	return res
}

func trunc(s string, n int) string {
	if len(s) > n {
		return s[:n] + "…"
	}
	return s
}

// parseValues reads a (get-value ...) answer positionally: one value per requested term.
func parseValues(out string) []string {
	idx := strings.Index(out, "\n")
	if idx < 0 {
		return nil
	}
	s := out[idx+1:]
	// find the outer list
	i := strings.Index(s, "(")
	if i < 0 {
		return nil
	}
	pos := i + 1
	var vals []string
	readSexp := func() string {
		for pos < len(s) && (s[pos] == ' ' || s[pos] == '\n' || s[pos] == '\t' || s[pos] == '\r') {
			pos++
		}
		if pos >= len(s) {
			return ""
		}
		st := pos
		if s[pos] == '(' {
			d := 0
			inbar := false
			for pos < len(s) {
				c := s[pos]
				if c == '|' {
					inbar = !inbar
				} else if !inbar {
					if c == '(' {
						d++
					} else if c == ')' {
						d--
						if d == 0 {
							pos++
							break
						}
					}
				}
				pos++
			}
			return s[st:pos]
		}
		if s[pos] == '|' {
			pos++
			for pos < len(s) && s[pos] != '|' {
				pos++
			}
			pos++
			return s[st:pos]
		}
		for pos < len(s) && s[pos] != ' ' && s[pos] != ')' && s[pos] != '(' && s[pos] != '\n' {
			pos++
		}
		return s[st:pos]
	}
	for pos < len(s) {
		for pos < len(s) && (s[pos] == ' ' || s[pos] == '\n') {
			pos++
		}
		if pos >= len(s) || s[pos] != '(' {
			break
		}
		pos++ // open pair
		_ = readSexp()
		v := readSexp()
		for pos < len(s) && s[pos] != ')' {
			pos++
		}
		pos++
		v = strings.TrimSpace(v)
		if strings.HasPrefix(v, "(-") {
			v = "-" + strings.TrimSpace(strings.TrimSuffix(strings.TrimPrefix(v, "(-"), ")"))
		}
		vals = append(vals, v)
	}
	return vals
}

var modelRe = regexp.MustCompile(`\(\s*(\|[^|]*\||[^\s()]+)\s+((?:\(-\s*\d+\))|(?:-?\d+)|true|false)\s*\)`)

// parseModel reads the output of (get-value (...)) for scalar Int/Bool values.
func parseModel(out string) map[string]string {
	m := map[string]string{}
	idx := strings.Index(out, "\n")
	if idx < 0 {
		return m
	}
	for _, g := range modelRe.FindAllStringSubmatch(out[idx:], -1) {
		v := g[2]
		if strings.HasPrefix(v, "(-") {
			v = "-" + strings.TrimSpace(strings.TrimSuffix(strings.TrimPrefix(v, "(-"), ")"))
		}
		m[strings.Trim(g[1], "|")] = v
	}
	return m
}

// ---------------------------------------------------------------------------

type SMTFile struct {
	Decls   []Decl   // in order of declaration
	Sorts   []string // uninterpreted sorts
	Prelude []string // axioms (assert ...) bodies
	Assumes []string
	Goal    string
	Values  []string // terms to get-value on sat
	ValueNames []string
}

func (f *SMTFile) Render() string {
	var b strings.Builder
	b.WriteString("(set-option :produce-models true)\n(set-logic ALL)\n")
	for _, s := range f.Sorts {
		fmt.Fprintf(&b, "(declare-sort %s 0)\n", s)
	}
	for _, d := range f.Decls {
		fmt.Fprintf(&b, "(declare-fun %s %s)\n", d.Name, d.Sig)
	}
	for _, a := range f.Prelude {
		fmt.Fprintf(&b, "(assert %s)\n", a)
	}
	for _, a := range f.Assumes {
		if a == "true" {
			continue
		}
		fmt.Fprintf(&b, "(assert %s)\n", a)
	}
	fmt.Fprintf(&b, "(assert (not %s))\n", f.Goal)
	b.WriteString("(check-sat)\n")
	if len(f.Values) > 0 {
		fmt.Fprintf(&b, "(get-value (%s))\n", strings.Join(f.Values, " "))
	}
	return b.String()
}

// ---------------------------------------------------------------------------
// Parallel discharge.

type Job struct {
	Ob   *Oblig
	Text string
}

func Discharge(obs []*Oblig, outDir string, tsec int, thorough bool) {
	_ = os.MkdirAll(outDir, 0o755)
	// dedupe identical texts
	type key string
	cache := map[key]*SolverResult{}
	var mu sync.Mutex
	var wg sync.WaitGroup
	sem := make(chan struct{}, 16)
	// fail fast per obligation: once one path of an obligation is not discharged, its other
	// paths add nothing to the verdict (one failing path suffices) and are skipped
	failedName := map[string]bool{}
	failedAny := false // once the run is failing anyway, the remaining obligations get a short timeout
	sort.SliceStable(obs, func(i, j int) bool { return obs[i].Name < obs[j].Name })
	for i, ob := range obs {
		if ob.Trivial {
			ob.Res = SolverResult{Status: "unsat", Solver: "syntactic"}
			continue
		}
		i, ob := i, ob
		wg.Add(1)
		sem <- struct{}{}
		go func() {
			defer wg.Done()
			defer func() { <-sem }()
			text := ob.SMT
			mu.Lock()
			if failedName[ob.Name] && !ob.Cover {
				ob.Res = SolverResult{Status: "unsat", Solver: "skipped (another path of this obligation already failed)"}
				mu.Unlock()
				return
			}
			mu.Unlock()
			defer func() {
				if !ob.Cover && ob.Res.Status != "unsat" {
					mu.Lock()
					failedName[ob.Name] = true
					failedAny = true
					mu.Unlock()
				}
			}()
			tsec := tsec
			mu.Lock()
			if failedAny && !thorough && tsec > 6 {
				tsec = 6
			}
			mu.Unlock()
			mu.Lock()
			if r, ok := cache[key(text)]; ok && r != nil {
				ob.Res = *r
				mu.Unlock()
				return
			}
			mu.Unlock()
			fn := filepath.Join(outDir, fmt.Sprintf("ob%04d.smt2", i))
			_ = os.WriteFile(fn, []byte(text), 0o644)
			ob.File = fn
			tw := time.Now()
			defer func() { ob.WallMs = time.Since(tw).Milliseconds() }()
			if ob.Cover {
				// anti-vacuity: the assumptions must be satisfiable; only a refutation fails
				cr := runCover(fn)
				ob.Res = cr
				return
			}
			var vts []string
			if ob.Variants != nil {
				vts = ob.Variants()
			}
			type vres struct {
				r    SolverResult
				main bool
				idx  int
			}
			rch := make(chan vres, len(vts)+1)
			go func() { rch <- vres{Solve(fn, tsec, thorough), true, -1} }()
			// hypothesis relaxation: forall-exists hypotheses can send the instantiation
			// engines into matching loops; a proof from fewer hypotheses is still a proof.
			// The weaker variants are started only if the full query is not decided quickly.
			var early *vres
			if len(vts) > 0 {
				select {
				case x := <-rch:
					early = &x
				case <-time.After(1500 * time.Millisecond):
				}
			}
			if early != nil && (early.r.Status == "unsat" || early.r.Status == "sat") {
				vts = nil
			}
			for vi, vt := range vts {
				vi, vt := vi, vt
				go func() {
					vf := filepath.Join(outDir, fmt.Sprintf("ob%04d.v%d.smt2", i, vi))
					_ = os.WriteFile(vf, []byte(vt), 0o644)
					rch <- vres{Solve(vf, 6, false), false, vi}
				}()
			}
			if early != nil {
				e := *early
				go func() { rch <- e }()
			}
			var r SolverResult
			var mainR *SolverResult
			done := false
			var notes []string
			for n := 0; n < len(vts)+1 && !done; n++ {
				x := <-rch
				if x.main {
					mr := x.r
					mainR = &mr
					if x.r.Status == "unsat" || x.r.Status == "sat" {
						r = x.r
						done = true
					}
				} else {
					notes = append(notes, fmt.Sprintf("variant%d[%s]", x.idx, strings.Join(x.r.All, ",")))
					if x.r.Status == "unsat" {
						r = x.r
						r.Solver += "+relaxed"
						done = true
					}
				}
			}
			if !done && mainR != nil {
				r = *mainR
			}
			r.All = append(r.All, notes...)
			ob.Res = r
			mu.Lock()
			cache[key(text)] = &r
			mu.Unlock()
		}()
	}
	wg.Wait()
}
