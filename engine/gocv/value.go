package gocv

import (
	"fmt"
	"go/types"
	"math/big"
	"strings"
)

// ---------------------------------------------------------------------------
// Symbolic values.

type Val struct {
	T    types.Type
	S    string // scalar term
	Sort string // sort of S
	F    []*Val // aggregate components
	LV   *LVal  // for pointers: the l-value pointed to (nil: plain heap ref in S)
	Fn   *FnVal // statically known function value
	AutoDeref bool // captured variable: the name denotes *ptr in contracts
}

type FnVal struct {
	Key      string // contract key of the function (or "var:pkg.Name")
	Fn       interface{} // *ssa.Function when known
	Bindings []*Val
	Recv     *Val // bound method receiver
}

const (
	lvLocal = iota
	lvHeap
	lvElem
	lvGlobal
)

type Cell struct {
	ID   int
	Name string
	T    types.Type
}

type pathStep struct {
	Field int    // field index (struct) or constant array index
	Sym   string // symbolic array index term ("" if constant)
	IsArr bool
}

type LVal struct {
	Kind   int
	Cell   *Cell
	Ref    string     // heap object ref / backing array ref
	Idx    string     // lvElem: absolute index
	Root   types.Type // type of root object (struct/boxed type/elem type/cell type)
	Path   []pathStep
	Global string
	VarCell bool // the heap cell of a captured / escaping local variable (component family var<T>)
}

func (v *Val) IsAgg() bool { return v.F != nil }

func scalar(T types.Type, s, sort string) *Val { return &Val{T: T, S: s, Sort: sort} }

func boolVal(s string) *Val { return &Val{T: types.Typ[types.Bool], S: s, Sort: SBool} }
func intVal(s string) *Val  { return &Val{T: types.Typ[types.UntypedInt], S: s, Sort: SInt} }

func (v *Val) String() string {
	if v == nil {
		return "<nil>"
	}
	if v.F != nil {
		var xs []string
		for _, f := range v.F {
			xs = append(xs, f.String())
		}
		return "{" + strings.Join(xs, ", ") + "}"
	}
	if v.S == "" && v.LV != nil {
		return "<lv>"
	}
	return v.S
}

// leaves returns the scalar leaves in DFS order.
func leaves(v *Val) []*Val {
	if v == nil {
		return nil
	}
	if v.F == nil {
		return []*Val{v}
	}
	var out []*Val
	for _, f := range v.F {
		out = append(out, leaves(f)...)
	}
	return out
}

// ---------------------------------------------------------------------------
// Shapes

type fieldShape struct {
	Name string
	T    types.Type
}

type Shape struct {
	Scalar bool
	Sort   string
	Fields []fieldShape
	Kind   string // struct, slice, iface, array, tuple, abstract, scalar
}

var (
	tInt    = types.Typ[types.Int]
	tMath   = types.Typ[types.UntypedInt]
	tBool   = types.Typ[types.Bool]
	tString = types.Typ[types.String]
)

func typeKey(T types.Type) string {
	return types.TypeString(T, func(p *types.Package) string { return p.Path() })
}

func shortTypeKey(T types.Type) string {
	return types.TypeString(T, func(p *types.Package) string { return p.Name() })
}

// structCanon: named struct types declared as `type A B` -> key of B (see load.go).
var structCanon = map[string]string{}

func namedKey(T types.Type) string {
	if n, ok := T.(*types.Named); ok {
		o := n.Origin().Obj()
		if o.Pkg() != nil {
			k := o.Pkg().Path() + "." + o.Name()
			if c, ok := structCanon[k]; ok {
				return c
			}
			return k
		}
		return o.Name()
	}
	if a, ok := T.(*types.Alias); ok {
		return namedKey(types.Unalias(a))
	}
	return ""
}

func (E *Engine) shape(T types.Type) Shape {
	if T == nil {
		panic(engineErr("value without a type (aggregate built by a contract expression)"))
	}
	T = types.Unalias(T)
	if k := namedKey(T); k != "" {
		if at, ok := E.CS.Abstract[k]; ok {
			sh := Shape{Kind: "abstract"}
			for _, f := range at.Fields {
				sh.Fields = append(sh.Fields, fieldShape{f.Name, E.resolveCType(nil, f.Type)})
			}
			return sh
		}
	}
	switch u := T.Underlying().(type) {
	case *types.Basic:
		switch {
		case u.Info()&types.IsBoolean != 0:
			return Shape{Scalar: true, Sort: SBool, Kind: "scalar"}
		case u.Info()&types.IsString != 0:
			return Shape{Scalar: true, Sort: SStr, Kind: "scalar"}
		default:
			return Shape{Scalar: true, Sort: SInt, Kind: "scalar"}
		}
	case *types.Pointer, *types.Map, *types.Chan, *types.Signature:
		return Shape{Scalar: true, Sort: SInt, Kind: "scalar"}
	case *types.Slice:
		return Shape{Kind: "slice", Fields: []fieldShape{{"#ref", tMath}, {"#off", tMath}, {"#len", tMath}, {"#cap", tMath}}}
	case *types.Interface:
		if _, isTP := T.(*types.TypeParam); isTP {
			return Shape{Scalar: true, Sort: SInt, Kind: "scalar"}
		}
		return Shape{Kind: "iface", Fields: []fieldShape{{"#tag", tMath}, {"#val", tMath}}}
	case *types.Struct:
		sh := Shape{Kind: "struct"}
		for i := 0; i < u.NumFields(); i++ {
			sh.Fields = append(sh.Fields, fieldShape{u.Field(i).Name(), u.Field(i).Type()})
		}
		return sh
	case *types.Array:
		if u.Len() <= 16 {
			sh := Shape{Kind: "array"}
			for i := int64(0); i < u.Len(); i++ {
				sh.Fields = append(sh.Fields, fieldShape{fmt.Sprintf("[%d]", i), u.Elem()})
			}
			return sh
		}
		return Shape{Scalar: true, Sort: SInt, Kind: "scalar"}
	case *types.Tuple:
		sh := Shape{Kind: "tuple"}
		for i := 0; i < u.Len(); i++ {
			sh.Fields = append(sh.Fields, fieldShape{fmt.Sprintf("#%d", i), u.At(i).Type()})
		}
		return sh
	}
	return Shape{Scalar: true, Sort: SInt, Kind: "scalar"}
}

// intRange returns (lo, hi, ok) of an integer type.
func intRange(T types.Type) (*big.Int, *big.Int, bool) {
	b, ok := types.Unalias(T).Underlying().(*types.Basic)
	if !ok || b.Info()&types.IsInteger == 0 {
		return nil, nil, false
	}
	switch b.Kind() {
	case types.Int8:
		return big.NewInt(-128), big.NewInt(127), true
	case types.Int16:
		return big.NewInt(-32768), big.NewInt(32767), true
	case types.Int32:
		return big.NewInt(-1 << 31), big.NewInt(1<<31 - 1), true
	case types.Int, types.Int64:
		return new(big.Int).Neg(pow2(63)), new(big.Int).Sub(pow2(63), big.NewInt(1)), true
	case types.Uint8:
		return big.NewInt(0), big.NewInt(255), true
	case types.Uint16:
		return big.NewInt(0), big.NewInt(65535), true
	case types.Uint32:
		return big.NewInt(0), new(big.Int).Sub(pow2(32), big.NewInt(1)), true
	case types.Uint, types.Uint64, types.Uintptr:
		return big.NewInt(0), new(big.Int).Sub(pow2(64), big.NewInt(1)), true
	}
	return nil, nil, false // untyped
}

func isUnsigned(T types.Type) bool {
	b, ok := types.Unalias(T).Underlying().(*types.Basic)
	return ok && b.Info()&types.IsUnsigned != 0
}

func bitWidth(T types.Type) uint {
	b, ok := types.Unalias(T).Underlying().(*types.Basic)
	if !ok {
		return 64
	}
	switch b.Kind() {
	case types.Int8, types.Uint8:
		return 8
	case types.Int16, types.Uint16:
		return 16
	case types.Int32, types.Uint32:
		return 32
	}
	return 64
}

const maxLen = "281474976710656" // 2^48

// ---------------------------------------------------------------------------
// Fresh symbolic values

func (E *Engine) freshName(hint string) string {
	E.ctr++
	hint = strings.NewReplacer("|", "_", "\\", "_", " ", "_").Replace(hint)
	return qsym(fmt.Sprintf("%s!%d", hint, E.ctr))
}

func (E *Engine) declare(name, sig string) {
	E.decls[name] = sig
}

func (E *Engine) freshConst(hint, sort string) string {
	n := E.freshName(hint)
	E.declare(n, "() "+sort)
	return n
}

// freshVal builds a fresh value of type T; facts collects well-formedness assumptions.
func (E *Engine) freshVal(T types.Type, hint string, facts *[]string) *Val {
	sh := E.shape(T)
	if sh.Scalar {
		c := E.freshConst(hint, sh.Sort)
		v := &Val{T: T, S: c, Sort: sh.Sort}
		if facts != nil {
			*facts = append(*facts, E.wfScalar(T, c)...)
		}
		return v
	}
	v := &Val{T: T, F: []*Val{}}
	for _, f := range sh.Fields {
		v.F = append(v.F, E.freshVal(f.T, hint+"."+strings.TrimPrefix(f.Name, "#"), facts))
	}
	if facts != nil {
		*facts = append(*facts, E.wfAgg(T, sh, v)...)
	}
	return v
}

func (E *Engine) wfScalar(T types.Type, c string) []string {
	if lo, hi, ok := intRange(T); ok {
		return []string{sx("<=", bigLit(lo), c), sx("<=", c, bigLit(hi))}
	}
	switch types.Unalias(T).Underlying().(type) {
	case *types.Pointer, *types.Map, *types.Chan, *types.Signature:
		return []string{sx(">=", c, "0")}
	}
	if b, ok := types.Unalias(T).Underlying().(*types.Basic); ok && b.Info()&types.IsString != 0 {
		return []string{sx("<=", "0", sx(fSlen, c)), sx("<=", sx(fSlen, c), maxLen)}
	}
	return nil
}

func (E *Engine) wfAgg(T types.Type, sh Shape, v *Val) []string {
	switch sh.Kind {
	case "slice":
		ref, off, ln, cp := v.F[0].S, v.F[1].S, v.F[2].S, v.F[3].S
		return []string{
			sx(">=", ref, "0"), sx(">=", off, "0"), sx("<=", "0", ln), sx("<=", ln, cp), sx("<=", sx("+", off, cp), maxLen),
			implies(eq(ref, "0"), and(eq(ln, "0"), eq(cp, "0"), eq(off, "0"))),
		}
	case "iface":
		tag, val := v.F[0].S, v.F[1].S
		return []string{sx(">=", tag, "0"), implies(eq(tag, "0"), eq(val, "0"))}
	case "abstract":
		return E.abstractWF(T, v)
	}
	return nil
}

// abstractWF: well-formedness for abstract types comes from `axiom`-like
// type invariants declared as spec "wf_<Name>(x) bool" with a body.
func (E *Engine) abstractWF(T types.Type, v *Val) []string {
	k := namedKey(T)
	i := strings.LastIndex(k, ".")
	name := "wf_" + k[i+1:]
	if sf, ok := E.CS.Specs[name]; ok && sf.Body != nil && len(sf.Params) == 1 {
		ev := &cenv{E: E, vars: map[string]*Val{sf.Params[0].Name: v}, ctx: sf.Ctx, heap: nil}
		r := ev.eval(sf.Body)
		if r != nil && r.Sort == SBool {
			return []string{r.S}
		}
	}
	return nil
}

// zeroVal builds the zero value of T.
func (E *Engine) zeroVal(T types.Type) *Val {
	sh := E.shape(T)
	if sh.Scalar {
		switch sh.Sort {
		case SBool:
			return &Val{T: T, S: "false", Sort: SBool}
		case SStr:
			return &Val{T: T, S: E.strLit(""), Sort: SStr}
		}
		return &Val{T: T, S: "0", Sort: SInt}
	}
	v := &Val{T: T, F: []*Val{}}
	for _, f := range sh.Fields {
		v.F = append(v.F, E.zeroVal(f.T))
	}
	return v
}

// retype returns v viewed as type T (same shape).
func retype(v *Val, T types.Type) *Val {
	if v == nil {
		return nil
	}
	c := *v
	c.T = T
	return &c
}

// ---------------------------------------------------------------------------
// Heap components

type leafInfo struct {
	Path string
	Sort string
	T    types.Type
	Ptr  bool // pointer-like leaf (slice ref, pointer, value of a pointer-only interface)
}

// leafPaths lists the scalar leaves of a type with dotted paths.
func (E *Engine) leafPaths(T types.Type, prefix string, out *[]leafInfo) {
	sh := E.shape(T)
	if sh.Scalar {
		*out = append(*out, leafInfo{Path: prefix, Sort: sh.Sort, T: T})
		return
	}
	ptrIface := sh.Kind == "iface" && E.CS.PtrIfaces[namedKey(T)]
	for _, f := range sh.Fields {
		if ptrIface && f.Name == "#val" {
			*out = append(*out, leafInfo{Path: prefix + "#val", Sort: SInt, T: f.T, Ptr: true})
			continue
		}
		p := prefix
		if strings.HasPrefix(f.Name, "#") || strings.HasPrefix(f.Name, "[") {
			p += f.Name
		} else if p == "" {
			p = f.Name
		} else {
			p += "." + f.Name
		}
		E.leafPaths(f.T, p, out)
	}
}

// rootName names the heap component family for objects of type T.
func (E *Engine) rootName(T types.Type) string {
	T = types.Unalias(T)
	if k := namedKey(T); k != "" {
		if _, isStruct := T.Underlying().(*types.Struct); isStruct {
			if _, abs := E.CS.Abstract[k]; !abs {
				return k
			}
		}
	}
	return "box<" + typeKey(T) + ">"
}

func elemsRoot(E types.Type) string { return "elems<" + typeKey(E) + ">" }

// compName builds the component name for root + leaf path.
func compName(root, leaf string) string {
	if leaf == "" {
		return root + "!"
	}
	return root + "!" + leaf
}

func arrSort(elem string) string  { return "(Array Int " + elem + ")" }
func arr2Sort(elem string) string { return "(Array Int (Array Int " + elem + "))" }
