package gocv

import (
	"fmt"
	"go/token"
	"go/types"
	"strings"

	"golang.org/x/tools/go/ssa"
)

// execInstr executes one non-terminator instruction. It returns nil when st was
// updated in place, or a list of alternative successor states (forks).
func (E *Engine) execInstr(st *State, in ssa.Instruction) []*State {
	switch x := in.(type) {
	case *ssa.DebugRef:
		if obj := x.Object(); obj != nil && !x.IsAddr {
			if v, ok := st.regs[x.X]; ok {
				st.env[obj.Name()] = v
			} else if c, ok := x.X.(*ssa.Const); ok {
				st.env[obj.Name()] = E.constVal(c)
			}
		} else if obj != nil && x.IsAddr {
			if v, ok := st.regs[x.X]; ok && v.LV != nil && v.LV.Kind == lvLocal && len(v.LV.Path) == 0 {
				st.env["&"+obj.Name()] = v
			} else if ok && v.LV != nil && v.LV.VarCell && len(v.LV.Path) == 0 {
				// a local captured by a closure (boxed): contracts name its content
				st.env["&box:"+obj.Name()] = v
			}
		}
		return nil
	case *ssa.Alloc:
		E.doAlloc(st, x)
		return nil
	case *ssa.BinOp:
		st.regs[x] = E.binop(st, x)
		return nil
	case *ssa.UnOp:
		return E.unop(st, x)
	case *ssa.Phi:
		return nil
	case *ssa.Call:
		return E.doCall(st, x, &x.Call, x)
	case *ssa.Defer:
		d := deferred{call: &x.Call, pos: E.pos(x)}
		if !x.Call.IsInvoke() {
			d.fn = E.val(st, x.Call.Value)
		} else {
			d.fn = E.val(st, x.Call.Value)
		}
		for _, a := range x.Call.Args {
			d.args = append(d.args, E.val(st, a))
		}
		for _, a := range d.args {
			E.escapeVal(st, a)
		}
		E.escapeVal(st, d.fn)
		st.defers = append(st.defers, d)
		return nil
	case *ssa.RunDefers:
		return E.runDefers(st, x)
	case *ssa.Go:
		return E.doGo(st, x)
	case *ssa.ChangeInterface:
		st.regs[x] = retype(E.val(st, x.X), x.Type())
		return nil
	case *ssa.ChangeType:
		st.regs[x] = retype(E.val(st, x.X), x.Type())
		return nil
	case *ssa.Convert:
		st.regs[x] = E.convert(st, x)
		return nil
	case *ssa.MultiConvert:
		st.regs[x] = retype(E.val(st, x.X), x.Type())
		return nil
	case *ssa.Extract:
		t := E.val(st, x.Tuple)
		st.regs[x] = t.F[x.Index]
		return nil
	case *ssa.Field:
		v := E.val(st, x.X)
		if v.F == nil {
			panic(engineErr("field of opaque struct value " + typeKey(x.X.Type())))
		}
		st.regs[x] = v.F[x.Field]
		return nil
	case *ssa.FieldAddr:
		st.regs[x] = E.fieldAddr(st, x)
		return nil
	case *ssa.Index:
		st.regs[x] = E.index(st, x)
		return nil
	case *ssa.IndexAddr:
		st.regs[x] = E.indexAddr(st, x)
		return nil
	case *ssa.Lookup:
		st.regs[x] = E.lookup(st, x)
		return nil
	case *ssa.MakeInterface:
		v := E.val(st, x.X)
		id := E.typeID(x.X.Type())
		if v.F == nil && v.Sort == SInt && v.S != "" {
			st.regs[x] = &Val{T: x.Type(), F: []*Val{intVal(intLit(int64(id))), intVal(v.S)}}
		} else {
			// box non-pointer dynamic values: identity is an uninterpreted injection of the leaves
			ls := leaves(v)
			var sorts, args []string
			for _, l := range ls {
				if l.S == "" {
					panic(engineErr("MakeInterface of derived pointer"))
				}
				sorts = append(sorts, l.Sort)
				args = append(args, l.S)
			}
			name := qsym("box:" + typeKey(x.X.Type()))
			E.declare(name, "("+strings.Join(sorts, " ")+") Int")
			// unboxing yields fresh names for the leaves: references inside are no longer tracked
			E.escapeVal(st, v)
			st.regs[x] = &Val{T: x.Type(), F: []*Val{intVal(intLit(int64(id))), intVal(sx(name, args...))}}
		}
		return nil
	case *ssa.MakeClosure:
		fn := x.Fn.(*ssa.Function)
		fv := &FnVal{Key: stripGenerics(fn.String()), Fn: fn}
		for _, b := range x.Bindings {
			fv.Bindings = append(fv.Bindings, E.val(st, b))
		}
		for _, b := range fv.Bindings {
			E.escapeVal(st, b)
		}
		ref := E.freshConst("closure", SInt)
		st.assume(sx(">", ref, "0"))
		st.regs[x] = &Val{T: x.Type(), S: ref, Sort: SInt, Fn: fv}
		return nil
	case *ssa.MakeSlice:
		st.regs[x] = E.makeSlice(st, x)
		return nil
	case *ssa.MakeMap:
		st.regs[x] = E.makeMap(st, x)
		return nil
	case *ssa.MakeChan:
		st.regs[x] = E.makeChan(st, x)
		return nil
	case *ssa.MapUpdate:
		E.mapUpdate(st, x)
		return nil
	case *ssa.Range:
		st.regs[x] = E.rangeInit(st, x)
		return nil
	case *ssa.Next:
		return E.rangeNext(st, x)
	case *ssa.Select:
		return E.doSelect(st, x)
	case *ssa.Send:
		return E.doSend(st, x)
	case *ssa.Slice:
		st.regs[x] = E.slice(st, x)
		return nil
	case *ssa.SliceToArrayPointer:
		st.regs[x] = E.sliceToArrayPtr(st, x)
		return nil
	case *ssa.Store:
		addr := E.val(st, x.Addr)
		v := E.val(st, x.Val)
		E.storeTo(st, x, addr, retype(v, deref(x.Addr.Type())))
		return nil
	case *ssa.TypeAssert:
		return E.typeAssert(st, x)
	}
	panic(engineErr(fmt.Sprintf("unsupported instruction %T", in)))
}

func deref(T types.Type) types.Type {
	if p, ok := types.Unalias(T).Underlying().(*types.Pointer); ok {
		return p.Elem()
	}
	return T
}

func (E *Engine) doAlloc(st *State, x *ssa.Alloc) {
	et := deref(x.Type())
	if !x.Heap {
		c := E.cur.cellOf[x]
		if c == nil {
			c = &Cell{ID: len(E.cur.cellOf), Name: x.Comment, T: et}
			E.cur.cellOf[x] = c
		}
		st.cells[c] = E.zeroVal(et)
		st.regs[x] = &Val{T: x.Type(), LV: &LVal{Kind: lvLocal, Cell: c, Root: et}}
		return
	}
	ref := E.newObject(st, "new:"+x.Comment)
	E.privNew(st, ref, E.rootName(et)+"!")
	lv := &LVal{Kind: lvHeap, Ref: ref, Root: et}
	// a named local whose address escapes (captured by a closure): its own cell family
	if strings.HasPrefix(E.rootName(et), "box<") && x.Comment != "" && !strings.Contains(x.Comment, "complit") && !strings.Contains(x.Comment, "varargs") && !strings.Contains(x.Comment, "makeslice") && !strings.HasPrefix(x.Comment, "new") {
		lv.VarCell = true
	}
	E.store(st, lv, E.zeroVal(et))
	if lv.VarCell {
		st.regs[x] = &Val{T: x.Type(), S: ref, Sort: SInt, LV: lv}
		return
	}
	st.regs[x] = &Val{T: x.Type(), S: ref, Sort: SInt}
}

// sliceToArrayPtr models (*[N]T)(s): a run-time panic unless len(s) >= N; the array is
// materialised as a fresh object holding a copy of the first N elements (N <= 16), so writes
// through the pointer are not seen through the slice (noted as an assumption).
func (E *Engine) sliceToArrayPtr(st *State, x *ssa.SliceToArrayPointer) *Val {
	base := E.val(st, x.X)
	at := deref(x.Type())
	arr := at.Underlying().(*types.Array)
	if arr.Len() > 16 {
		panic(engineErr("slice to large array pointer"))
	}
	g := sx(">=", base.F[2].S, intLit(arr.Len()))
	E.oblige(st, "bounds", E.site(x), g, "slice long enough for the array conversion", E.pos(x), nil)
	st.assume(g)
	sl := types.Unalias(x.X.Type()).Underlying().(*types.Slice)
	ref := E.newObject(st, "s2a")
	E.privNew(st, ref, E.rootName(at)+"!")
	lv := &LVal{Kind: lvHeap, Ref: ref, Root: at}
	v := E.zeroVal(at)
	if v.F == nil {
		panic(engineErr("slice to array pointer: array value without components"))
	}
	nv := &Val{T: v.T, F: make([]*Val, len(v.F))}
	for i := range v.F {
		nv.F[i] = E.load(st, st.heap, &LVal{Kind: lvElem, Ref: base.F[0].S, Idx: E.at(base.F[1].S, intLit(int64(i))), Root: sl.Elem()})
	}
	E.store(st, lv, nv)
	E.note("slice-to-array-pointer conversion: modelled as a copy (aliasing with the slice not tracked)")
	return &Val{T: x.Type(), S: ref, Sort: SInt}
}

// newObject allocates a fresh reference.
func (E *Engine) newObject(st *State, hint string) string {
	ref := E.freshConst(hint, SInt)
	st.assume(sx(">", ref, "0"), not(sx("select", st.alloc, ref)))
	st.alloc = sx("store", st.alloc, ref, "true")
	return ref
}

// ptrLV turns a pointer value into the l-value it designates.
func (E *Engine) ptrLV(v *Val) *LVal {
	if v.LV != nil {
		return v.LV
	}
	if v.S == "" {
		panic(engineErr("pointer without location"))
	}
	return &LVal{Kind: lvHeap, Ref: v.S, Root: deref(v.T)}
}

func (E *Engine) nilCheck(st *State, in ssa.Instruction, v *Val, what string) {
	if v.LV != nil && v.LV.Kind != lvHeap && v.LV.Kind != lvElem {
		return
	}
	if v.LV != nil && len(v.LV.Path) > 0 {
		return // already checked when the base was dereferenced
	}
	if v.S == "" {
		return
	}
	E.oblige(st, "nil", E.site(in), not(eq(v.S, "0")), what+" is not nil", E.pos(in), nil)
	st.assume(not(eq(v.S, "0")))
}

func (E *Engine) unop(st *State, x *ssa.UnOp) []*State {
	v := E.val(st, x.X)
	switch x.Op {
	case token.MUL:
		E.nilCheck(st, x, v, "dereferenced pointer")
		lv := E.ptrLV(v)
		E.lockCheck(st, x, lv, false)
		E.sharedRead(st, lv)
		r := E.load(st, st.heap, lv)
		r = retype(r, x.Type())
		st.assume(E.loadFacts(st, r)...)
		E.assumeTypeInvs(st, r)
		st.regs[x] = r
		return nil
	case token.NOT:
		st.regs[x] = boolVal(not(v.S))
		return nil
	case token.SUB:
		T := x.Type()
		r := sx("-", v.S)
		if isUnsigned(T) {
			r = E.wrapSt(st, T, r)
		}
		st.regs[x] = &Val{T: T, S: r, Sort: SInt}
		return nil
	case token.XOR:
		T := x.Type()
		if isUnsigned(T) {
			_, hi, _ := intRange(T)
			st.regs[x] = &Val{T: T, S: sx("-", bigLit(hi), v.S), Sort: SInt}
		} else {
			st.regs[x] = &Val{T: T, S: sx("-", sx("-", v.S), "1"), Sort: SInt}
		}
		return nil
	case token.ARROW:
		return E.doRecv(st, x, v)
	}
	panic(engineErr("unsupported unop " + x.Op.String()))
}

// loadFacts: well-formedness of values read from memory.
func (E *Engine) loadFacts(st *State, v *Val) []string {
	var out []string
	var walk func(v *Val)
	walk = func(v *Val) {
		if v.F != nil {
			sh := E.shape(v.T)
			out = append(out, E.wfAgg(v.T, sh, v)...)
			if sh.Kind == "slice" || sh.Kind == "iface" {
				if sh.Kind == "slice" {
					out = append(out, or(eq(v.F[0].S, "0"), sx("select", st.alloc, v.F[0].S)))
				} else if E.CS.PtrIfaces[namedKey(v.T)] {
					out = append(out, or(eq(v.F[1].S, "0"), sx("select", st.alloc, v.F[1].S)))
				}
				if sh.Kind == "iface" && E.CS.NonNilIfaces[namedKey(v.T)] {
					out = append(out, not(eq(v.F[0].S, "0")), not(eq(v.F[1].S, "0")))
				}
				return
			}
			for _, f := range v.F {
				walk(f)
			}
			return
		}
		if v.S == "" {
			return
		}
		out = append(out, E.wfScalar(v.T, v.S)...)
		switch types.Unalias(v.T).Underlying().(type) {
		case *types.Pointer, *types.Map, *types.Chan:
			out = append(out, or(eq(v.S, "0"), sx("select", st.alloc, v.S)))
		}
	}
	walk(v)
	return out
}

func (E *Engine) storeTo(st *State, in ssa.Instruction, addr, v *Val) {
	E.nilCheck(st, in, addr, "store target")
	lv := E.ptrLV(addr)
	for _, l := range leaves(v) {
		if l.S == "" {
			panic(engineErr("storing a derived pointer into memory"))
		}
	}
	E.lockCheck(st, in, lv, true)
	E.trackWrite(st, in, lv, v)
	if lv.Kind == lvHeap || lv.Kind == lvElem {
		E.checkNonNilStored(st, in, v)
	}
	if lv.Kind != lvLocal {
		// a reference written to memory may be read back by anyone who can reach that memory
		E.escapeVal(st, v)
	}
	E.store(st, lv, v)
	E.sharedWrite(st, in, lv)
}

// checkNonNilStored: a value of a `nonnil-stored` interface type written to memory is not nil.
func (E *Engine) checkNonNilStored(st *State, in ssa.Instruction, v *Val) {
	if v == nil || len(E.CS.NonNilIfaces) == 0 {
		return
	}
	if v.F != nil && len(v.F) == 2 && E.CS.NonNilIfaces[namedKey(v.T)] {
		if _, isIface := types.Unalias(v.T).Underlying().(*types.Interface); isIface {
			E.oblige(st, "nonnil-stored", E.site(in), and(not(eq(v.F[0].S, "0")), not(eq(v.F[1].S, "0"))), "a "+shortTypeKey(v.T)+" written to memory is not nil", E.pos(in), nil)
			return
		}
	}
	if v.F != nil {
		sh := E.shape(v.T)
		if sh.Kind == "slice" || sh.Kind == "iface" {
			return
		}
		for _, f := range v.F {
			E.checkNonNilStored(st, in, f)
		}
	}
}

func (E *Engine) fieldAddr(st *State, x *ssa.FieldAddr) *Val {
	base := E.val(st, x.X)
	E.nilCheck(st, x, base, "struct pointer")
	lv := E.ptrLV(base)
	n := &LVal{Kind: lv.Kind, Cell: lv.Cell, Ref: lv.Ref, Idx: lv.Idx, Root: lv.Root, Global: lv.Global}
	n.Path = append(append([]pathStep{}, lv.Path...), pathStep{Field: x.Field})
	return &Val{T: x.Type(), LV: n}
}

func (E *Engine) boundsCheck(st *State, in ssa.Instruction, idx, ln string, what string) {
	E.oblige(st, "bounds", E.site(in), and(sx("<=", "0", idx), sx("<", idx, ln)), what, E.pos(in), nil)
	st.assume(sx("<=", "0", idx), sx("<", idx, ln))
}

func (E *Engine) indexAddr(st *State, x *ssa.IndexAddr) *Val {
	base := E.val(st, x.X)
	idx := E.val(st, x.Index)
	switch t := types.Unalias(x.X.Type()).Underlying().(type) {
	case *types.Slice:
		E.boundsCheck(st, x, idx.S, base.F[2].S, "index in range of slice")
		return &Val{T: x.Type(), LV: &LVal{Kind: lvElem, Ref: base.F[0].S, Idx: E.at(base.F[1].S, idx.S), Root: t.Elem()}}
	case *types.Pointer:
		arr := t.Elem().Underlying().(*types.Array)
		E.nilCheck(st, x, base, "array pointer")
		E.boundsCheck(st, x, idx.S, intLit(arr.Len()), "index in range of array")
		lv := E.ptrLV(base)
		if arr.Len() > 16 {
			// large inline array: its elements are objects of their own, derived from the holder
			return &Val{T: x.Type(), S: E.arrayElemRef(lv, idx.S), Sort: SInt}
		}
		n := &LVal{Kind: lv.Kind, Cell: lv.Cell, Ref: lv.Ref, Idx: lv.Idx, Root: lv.Root, Global: lv.Global}
		step := pathStep{IsArr: true}
		if c, ok := isConstTerm(idx.S); ok {
			step.Field = int(c.Int64())
		} else {
			step.Sym = idx.S
		}
		if arr.Len() > 16 {
			panic(engineErr("large array"))
		}
		n.Path = append(append([]pathStep{}, lv.Path...), step)
		return &Val{T: x.Type(), LV: n}
	}
	panic(engineErr("IndexAddr on " + typeKey(x.X.Type())))
}

func (E *Engine) index(st *State, x *ssa.Index) *Val {
	base := E.val(st, x.X)
	idx := E.val(st, x.Index)
	switch t := types.Unalias(x.X.Type()).Underlying().(type) {
	case *types.Array:
		E.boundsCheck(st, x, idx.S, intLit(t.Len()), "index in range of array")
		if base.F == nil {
			panic(engineErr("index of large array value"))
		}
		step := pathStep{IsArr: true}
		if c, ok := isConstTerm(idx.S); ok {
			step.Field = int(c.Int64())
		} else {
			step.Sym = idx.S
		}
		return E.project(base, x.X.Type(), []pathStep{step})
	case *types.Basic: // string
		E.boundsCheck(st, x, idx.S, sx(fSlen, base.S), "index in range of string")
		return &Val{T: x.Type(), S: sx(fSat, base.S, idx.S), Sort: SInt}
	}
	panic(engineErr("Index on " + typeKey(x.X.Type())))
}

func (E *Engine) lookup(st *State, x *ssa.Lookup) *Val {
	base := E.val(st, x.X)
	idx := E.val(st, x.Index)
	if b, ok := types.Unalias(x.X.Type()).Underlying().(*types.Basic); ok && b.Info()&types.IsString != 0 {
		E.boundsCheck(st, x, idx.S, sx(fSlen, base.S), "index in range of string")
		return &Val{T: x.Type(), S: sx(fSat, base.S, idx.S), Sort: SInt}
	}
	return E.mapLookup(st, x, base, idx)
}

func (E *Engine) slice(st *State, x *ssa.Slice) *Val {
	base := E.val(st, x.X)
	var lo, hi, mx string
	if x.Low != nil {
		lo = E.val(st, x.Low).S
	} else {
		lo = "0"
	}
	switch t := types.Unalias(x.X.Type()).Underlying().(type) {
	case *types.Basic: // string
		ln := sx(fSlen, base.S)
		if x.High != nil {
			hi = E.val(st, x.High).S
		} else {
			hi = ln
		}
		g := and(sx("<=", "0", lo), sx("<=", lo, hi), sx("<=", hi, ln))
		E.oblige(st, "bounds", E.site(x), g, "string slice bounds", E.pos(x), nil)
		st.assume(g)
		E.needSubstr()
		return &Val{T: x.Type(), S: sx(fSubstr, base.S, lo, hi), Sort: SStr}
	case *types.Slice:
		ref, off, ln, cp := base.F[0].S, base.F[1].S, base.F[2].S, base.F[3].S
		_ = ln
		if x.High != nil {
			hi = E.val(st, x.High).S
		} else {
			hi = ln
		}
		if x.Max != nil {
			mx = E.val(st, x.Max).S
		} else {
			mx = cp
		}
		g := and(sx("<=", "0", lo), sx("<=", lo, hi), sx("<=", hi, mx), sx("<=", mx, cp))
		E.oblige(st, "bounds", E.site(x), g, "slice bounds", E.pos(x), nil)
		st.assume(g)
		return &Val{T: x.Type(), F: []*Val{intVal(ref), intVal(add(off, lo)), intVal(sub(hi, lo)), intVal(sub(mx, lo))}}
	case *types.Pointer:
		arr := t.Elem().Underlying().(*types.Array)
		n := intLit(arr.Len())
		if x.High != nil {
			hi = E.val(st, x.High).S
		} else {
			hi = n
		}
		g := and(sx("<=", "0", lo), sx("<=", lo, hi), sx("<=", hi, n))
		E.oblige(st, "bounds", E.site(x), g, "array slice bounds", E.pos(x), nil)
		st.assume(g)
		// materialise the array as a fresh backing array (used for variadic packs)
		lv := E.ptrLV(base)
		arrv := E.load(st, st.heap, lv)
		ref := E.newObject(st, "arr")
		E.privNew(st, ref, elemsRoot(arr.Elem())+"!")
		if arrv.F == nil {
			panic(engineErr("slicing large array"))
		}
		for i, e := range arrv.F {
			E.store(st, &LVal{Kind: lvElem, Ref: ref, Idx: intLit(int64(i)), Root: arr.Elem()}, e)
		}
		if _, isAlloc := x.X.(*ssa.Alloc); lv.Kind != lvLocal && !isAlloc {
			E.note("slice of non-local array: aliasing with the array is not tracked")
		}
		return &Val{T: x.Type(), F: []*Val{intVal(ref), intVal(lo), intVal(sub(hi, lo)), intVal(sub(n, lo))}}
	}
	panic(engineErr("Slice on " + typeKey(x.X.Type())))
}

func (E *Engine) makeSlice(st *State, x *ssa.MakeSlice) *Val {
	ln := E.val(st, x.Len).S
	cp := E.val(st, x.Cap).S
	g := and(sx("<=", "0", ln), sx("<=", ln, cp), sx("<=", cp, maxLen))
	E.oblige(st, "make-size", E.site(x), and(sx("<=", "0", ln), sx("<=", ln, cp)), "make: 0 <= len <= cap", E.pos(x), nil)
	st.assume(g)
	ref := E.newObject(st, "make")
	E.privNew(st, ref, elemsRoot(types.Unalias(x.Type()).Underlying().(*types.Slice).Elem())+"!")
	et := types.Unalias(x.Type()).Underlying().(*types.Slice).Elem()
	E.zeroElems(st, ref, et)
	return &Val{T: x.Type(), F: []*Val{intVal(ref), intVal("0"), intVal(ln), intVal(cp)}}
}

// zeroElems sets every element of the fresh backing array to the zero value.
func (E *Engine) zeroElems(st *State, ref string, et types.Type) {
	var ls []leafInfo
	E.leafPaths(et, "", &ls)
	z := leaves(E.zeroVal(et))
	for i, l := range ls {
		comp := compName(elemsRoot(et), l.Path)
		a := E.heapArr(st.heap, comp, l.Sort, true)
		st.heap[comp] = sx("store", a, ref, fmt.Sprintf("((as const (Array Int %s)) %s)", l.Sort, z[i].S))
		if st.written != nil {
			st.written[comp] = true
		}
		E.cur.touched[comp] = true
	}
}

func (E *Engine) convert(st *State, x *ssa.Convert) *Val {
	v := E.val(st, x.X)
	from, to := types.Unalias(x.X.Type()).Underlying(), types.Unalias(x.Type()).Underlying()
	fb, fok := from.(*types.Basic)
	tb, tok := to.(*types.Basic)
	switch {
	case fok && tok && fb.Info()&types.IsInteger != 0 && tb.Info()&types.IsInteger != 0:
		lo, hi, ok := intRange(x.Type())
		flo, fhi, fok2 := intRange(x.X.Type())
		if ok && fok2 && flo.Cmp(lo) >= 0 && fhi.Cmp(hi) <= 0 {
			return &Val{T: x.Type(), S: v.S, Sort: SInt}
		}
		if c, isC := isConstTerm(v.S); isC && ok && c.Cmp(lo) >= 0 && c.Cmp(hi) <= 0 {
			return &Val{T: x.Type(), S: v.S, Sort: SInt}
		}
		return &Val{T: x.Type(), S: E.wrapSt(st, x.Type(), v.S), Sort: SInt}
	case fok && tok && fb.Info()&types.IsString != 0 && tb.Info()&types.IsString != 0:
		return retype(v, x.Type())
	case fok && tok && (fb.Info()&types.IsFloat != 0 || tb.Info()&types.IsFloat != 0):
		if fb.Info()&types.IsFloat != 0 && tb.Info()&types.IsInteger != 0 {
			// float -> int: keep the (integer-modelled) value when it is in range
			name := qsym("spec:f2i_" + tb.Name())
			E.declare(name, "(Int) Int")
			E.note("float->%s conversion is uninterpreted (see ledger axioms)", tb.Name())
			r := sx(name, v.S)
			st.assume(inRange(x.Type(), r))
			return &Val{T: x.Type(), S: r, Sort: SInt}
		}
		E.note("int->float conversion modelled as identity")
		return &Val{T: x.Type(), S: v.S, Sort: SInt}
	case tok && tb.Info()&types.IsString != 0:
		// string(bytes) / string(rune)
		if sl, ok := from.(*types.Slice); ok {
			return E.bytesToString(st, v, sl.Elem(), x.Type())
		}
		if fok && fb.Info()&types.IsInteger != 0 {
			E.note("string(rune) is uninterpreted")
			return &Val{T: x.Type(), S: E.freshConst("runestr", SStr), Sort: SStr}
		}
	case fok && fb.Info()&types.IsString != 0:
		if sl, ok := to.(*types.Slice); ok {
			return E.stringToBytes(st, v, sl.Elem(), x.Type())
		}
	}
	if _, ok := from.(*types.Pointer); ok {
		return retype(v, x.Type())
	}
	if fok && fb.Kind() == types.UnsafePointer {
		return retype(v, x.Type())
	}
	panic(engineErr(fmt.Sprintf("unsupported conversion %s -> %s", typeKey(x.X.Type()), typeKey(x.Type()))))
}

func (E *Engine) needSubstr() {
	if E.specDecl["substr"] {
		return
	}
	E.specDecl["substr"] = true
	E.declare(fSubstr, "(Str Int Int) Str")
	E.axioms = append(E.axioms,
		axiom{Name: "substr-len", Trigger: []string{fSubstr}, Body: "(forall ((s Str) (a Int) (b Int)) (! (=> (and (<= 0 a) (<= a b) (<= b (|slen| s))) (= (|slen| (|substr| s a b)) (- b a))) :pattern ((|substr| s a b))))"},
		axiom{Name: "substr-at", Trigger: []string{fSubstr}, Body: "(forall ((s Str) (a Int) (b Int) (i Int)) (! (=> (and (<= 0 a) (<= a b) (<= b (|slen| s)) (<= 0 i) (< i (- b a))) (= (|sat| (|substr| s a b) i) (|sat| s (+ a i)))) :pattern ((|sat| (|substr| s a b) i))))"},
	)
}

func (E *Engine) initStringTheory() {
	E.declare(fSlen, "(Str) Int")
	E.declare(fSat, "(Str Int) Int")
	E.declare(fSeq, "(Str Str) Bool")
	E.declare(fConcat, "(Str Str) Str")
	E.axioms = append(E.axioms,
		axiom{Name: "slen-nonneg", Trigger: []string{fSlen}, Body: "(forall ((s Str)) (! (>= (|slen| s) 0) :pattern ((|slen| s))))"},
		axiom{Name: "sat-byte", Trigger: []string{fSat}, Body: "(forall ((s Str) (i Int)) (! (and (<= 0 (|sat| s i)) (<= (|sat| s i) 255)) :pattern ((|sat| s i))))"},
		axiom{Name: "seq-def", Trigger: []string{fSeq}, Body: "(forall ((a Str) (b Str)) (! (= (|seq| a b) (and (= (|slen| a) (|slen| b)) (forall ((i Int)) (! (=> (and (<= 0 i) (< i (|slen| a))) (= (|sat| a i) (|sat| b i))) :pattern ((|sat| a i)) :pattern ((|sat| b i)))))) :pattern ((|seq| a b))))"},
		axiom{Name: "seq-ground", Trigger: []string{fSeq}, Body: "(forall ((a Str) (b Str)) (! (=> (|seq| a b) (and (= (|sat| a 0) (|sat| b 0)) (= (|sat| a 1) (|sat| b 1)) (= (|sat| a 2) (|sat| b 2)) (= (|sat| a 3) (|sat| b 3)) (= (|sat| a 4) (|sat| b 4)) (= (|sat| a 5) (|sat| b 5)) (= (|sat| a 6) (|sat| b 6)))) :pattern ((|seq| a b))))"},
		axiom{Name: "seq-eq", Trigger: []string{fSeq}, Body: "(forall ((a Str) (b Str)) (! (=> (|seq| a b) (= a b)) :pattern ((|seq| a b))))"},
		axiom{Name: "concat-len", Trigger: []string{fConcat}, Body: "(forall ((a Str) (b Str)) (! (= (|slen| (|sconcat| a b)) (+ (|slen| a) (|slen| b))) :pattern ((|sconcat| a b))))"},
		axiom{Name: "concat-at", Trigger: []string{fConcat}, Body: "(forall ((a Str) (b Str) (i Int)) (! (=> (and (<= 0 i) (< i (+ (|slen| a) (|slen| b)))) (= (|sat| (|sconcat| a b) i) (ite (< i (|slen| a)) (|sat| a i) (|sat| b (- i (|slen| a)))))) :pattern ((|sat| (|sconcat| a b) i))))"},
	)
}

func (E *Engine) bytesToString(st *State, v *Val, et types.Type, T types.Type) *Val {
	s := E.freshConst("bstr", SStr)
	comp := compName(elemsRoot(et), "")
	a := E.heapArr(st.heap, comp, SInt, true)
	i := E.freshName("i")
	st.assume(eq(sx(fSlen, s), v.F[2].S),
		fmt.Sprintf("(forall ((%s Int)) (! (=> (and (<= 0 %s) (< %s %s)) (= (|sat| %s %s) (select (select %s %s) (+ %s %s)))) :pattern ((|sat| %s %s))))",
			i, i, i, v.F[2].S, s, i, a, v.F[0].S, v.F[1].S, i, s, i))
	return &Val{T: T, S: s, Sort: SStr}
}

func (E *Engine) stringToBytes(st *State, v *Val, et types.Type, T types.Type) *Val {
	ref := E.newObject(st, "bytes")
	E.privNew(st, ref, elemsRoot(et)+"!")
	comp := compName(elemsRoot(et), "")
	a := E.heapArr(st.heap, comp, SInt, true)
	inner := E.freshConst("barr", arrSort(SInt))
	i := E.freshName("i")
	ln := sx(fSlen, v.S)
	st.assume(fmt.Sprintf("(forall ((%s Int)) (! (=> (and (<= 0 %s) (< %s %s)) (= (select %s %s) (|sat| %s %s))) :pattern ((select %s %s))))",
		i, i, i, ln, inner, i, v.S, i, inner, i))
	st.heap[comp] = sx("store", a, ref, inner)
	E.cur.touched[comp] = true
	if st.written != nil {
		st.written[comp] = true
	}
	cp := E.freshConst("cap", SInt)
	st.assume(sx("<=", ln, cp), sx("<=", cp, maxLen))
	return &Val{T: T, F: []*Val{intVal(ref), intVal("0"), intVal(ln), intVal(cp)}}
}

func (E *Engine) typeAssert(st *State, x *ssa.TypeAssert) []*State {
	v := E.val(st, x.X)
	if v.F == nil {
		panic(engineErr("type assertion on non-interface value"))
	}
	tag, val := v.F[0].S, v.F[1].S
	var ok string
	var res *Val
	if _, isIface := types.Unalias(x.AssertedType).Underlying().(*types.Interface); isIface {
		// interface-to-interface: succeeds iff dynamic type implements it — unknown in general
		// (a fixed but unknown relation between dynamic type tags and interface types; the ledger
		// may state it for a library result with implements(x, T))
		E.declare("|implements|", "(Int Int) Bool")
		okc := sx("|implements|", tag, intLit(int64(E.typeID(x.AssertedType))))
		st.assume(implies(okc, not(eq(tag, "0"))))
		ok = okc
		res = retype(v, x.AssertedType)
	} else {
		id := E.typeID(x.AssertedType)
		ok = eq(tag, intLit(int64(id)))
		sh := E.shape(x.AssertedType)
		if sh.Scalar && sh.Sort == SInt {
			res = &Val{T: x.AssertedType, S: val, Sort: SInt}
		} else {
			var facts []string
			res = E.freshVal(x.AssertedType, "unboxed", &facts)
			st.assume(facts...)
			ls := leaves(res)
			var sorts, args []string
			for _, l := range ls {
				sorts = append(sorts, l.Sort)
				args = append(args, l.S)
			}
			name := qsym("box:" + typeKey(x.AssertedType))
			E.declare(name, "("+strings.Join(sorts, " ")+") Int")
			st.assume(implies(ok, eq(sx(name, args...), val)))
		}
	}
	if x.CommaOk {
		zero := E.zeroVal(x.AssertedType)
		r := E.iteVal(ok, res, zero)
		// an object found behind an interface is a reachable object: allocated, type invariants hold
		st.assume(E.allocFacts(st, r)...)
		E.assumeTypeInvs(st, r)
		st.regs[x] = &Val{T: x.Type(), F: []*Val{r, boolVal(ok)}}
		return nil
	}
	E.oblige(st, "typeassert", E.site(x), ok, "type assertion succeeds", E.pos(x), nil)
	st.assume(ok)
	st.assume(E.allocFacts(st, res)...)
	E.assumeTypeInvs(st, res)
	st.regs[x] = res
	return nil
}
