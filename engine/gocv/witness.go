package gocv

import (
	"fmt"
	"go/types"
	"strconv"
	"strings"
)

// inputTerm: a term whose model value is requested on `sat`, with the name under
// which it is reported to replay drivers.
type inputTerm struct {
	Name string
	Term string
}

const witnessPrefix = 24 // how many leading bytes of strings / byte slices are extracted

// inputTerms lists the model terms describing a parameter.
func (E *Engine) inputTerms(st *State, name string, v *Val) []inputTerm {
	var out []inputTerm
	if v.F == nil {
		switch v.Sort {
		case SInt, SBool:
			out = append(out, inputTerm{name, v.S})
		case SStr:
			out = append(out, inputTerm{name + ".len", sx(fSlen, v.S)})
			for i := 0; i < witnessPrefix; i++ {
				out = append(out, inputTerm{fmt.Sprintf("%s[%d]", name, i), sx(fSat, v.S, intLit(int64(i)))})
			}
		}
		return out
	}
	sh := E.shape(v.T)
	switch sh.Kind {
	case "slice":
		out = append(out, inputTerm{name + ".len", v.F[2].S})
		et := types.Unalias(v.T).Underlying().(*types.Slice).Elem()
		if esh := E.shape(et); esh.Scalar && esh.Sort == SInt {
			comp := compName(elemsRoot(et), "")
			a := E.heapArr(st.heap, comp, SInt, true)
			for i := 0; i < witnessPrefix; i++ {
				out = append(out, inputTerm{fmt.Sprintf("%s[%d]", name, i), sx("select", sx("select", a, v.F[0].S), E.at(v.F[1].S, intLit(int64(i))))})
			}
		}
	case "struct", "abstract", "array", "tuple":
		for i, f := range sh.Fields {
			out = append(out, E.inputTerms(st, name+"."+strings.TrimPrefix(f.Name, "#"), v.F[i])...)
		}
	case "iface":
		out = append(out, inputTerm{name + ".tag", v.F[0].S})
	}
	return out
}

// WitnessFromModel turns positional model values into a JSON-able "params" map:
// scalars as numbers/bools, strings and byte slices as Go strings (prefix only).
func WitnessFromModel(names, vals []string) map[string]interface{} {
	if len(names) == 0 || len(names) != len(vals) {
		return nil
	}
	raw := map[string]string{}
	for i, n := range names {
		raw[n] = vals[i]
	}
	params := map[string]interface{}{}
	done := map[string]bool{}
	for n, v := range raw {
		if strings.HasSuffix(n, ".len") {
			base := strings.TrimSuffix(n, ".len")
			ln, err := strconv.Atoi(v)
			if err != nil {
				continue
			}
			if _, has := raw[base+"[0]"]; has {
				var bs []byte
				for i := 0; i < ln && i < witnessPrefix; i++ {
					x, err := strconv.Atoi(raw[fmt.Sprintf("%s[%d]", base, i)])
					if err != nil {
						x = 0
					}
					bs = append(bs, byte(x))
				}
				for i := len(bs); i < ln && i < 70000; i++ {
					bs = append(bs, 'a')
				}
				params[base] = string(bs)
				params[base+".len"] = ln
				ints := make([]int, len(bs))
				for i, b := range bs {
					ints[i] = int(b)
				}
				params[base+".bytes"] = ints
				done[base] = true
			} else {
				params[n] = ln
			}
		}
	}
	for n, v := range raw {
		if strings.HasSuffix(n, ".len") {
			continue
		}
		if i := strings.LastIndex(n, "["); i > 0 && done[n[:i]] {
			continue
		}
		if v == "true" || v == "false" {
			params[n] = v == "true"
		} else if x, err := strconv.ParseInt(v, 10, 64); err == nil {
			params[n] = x
		} else {
			params[n] = v
		}
	}
	return map[string]interface{}{"params": params}
}
