package gocv

import (
	"fmt"
	"go/constant"
	"go/token"
	"go/types"
	"math/big"
	"sort"
	"strings"

	"golang.org/x/tools/go/ssa"
)

type loopInfo struct {
	Header  *ssa.BasicBlock
	Body    map[*ssa.BasicBlock]bool
	Ordinal int
	Spec    *LoopSpec
}

type fnCtx struct {
	key      string
	short    string
	fn       *ssa.Function
	spec     *FuncSpec
	props    map[string]bool
	loops    []*loopInfo
	loopOf   map[*ssa.BasicBlock]*loopInfo
	compSort map[string]string
	touched  map[string]bool
	params   map[string]*Val
	paramList []*Val
	entryHeap map[string]string
	entryAlloc string
	paths    int
	inputs   []inputTerm
	ordinals map[ssa.Instruction]int
	cellOf   map[*ssa.Alloc]*Cell
	returns  int
	modLVs   []*modItem
	relRun   int // 0 normal; 1/2 relational runs
	retVals  []*Val
	retStates []*State
	freeVars map[*ssa.FreeVar]*Val
	pendingHavoc []string
	compPtr  map[string]bool
	heapFacts []axiom
	factSeen map[string]bool
	modCache map[string][]*modItem
	modWhole map[string]bool
	coveredLoop map[int]bool
	coveredRet bool
	coveredLoopN map[int]int
	labelHit map[string]bool
}

type modItem struct {
	lv      *LVal
	allElems bool   // elems(s): the window [lo, hi) of the backing array (off .. off+cap)
	lo, hi  string
	comp    string // whole component
	expr    string
}

func (E *Engine) shortName(f *ssa.Function) string {
	s := stripGenerics(f.String())
	s = strings.ReplaceAll(s, "github.com/IrineSistiana/mosdns/v5/", "")
	return s
}

// VerifyFunc generates all obligations of one function under contract.
func (E *Engine) VerifyFunc(key string, props []string) (err error) {
	// a helper that turns out not to be executable in place is excluded and the function redone
	for try := 0; ; try++ {
		nOb, nNotes, nDef := len(E.Obligs), len(E.Notes), len(E.Deferred)
		retry := false
		func() {
			defer func() {
				if r := recover(); r != nil {
					if ie, ok := r.(inlineErr); ok && try < 8 {
						E.noInline[ie.fn] = true
						E.Obligs, E.Notes, E.Deferred = E.Obligs[:nOb], E.Notes[:nNotes], E.Deferred[:nDef]
						E.dry, E.dryLoops, E.dryEsc, E.fragment = 0, nil, nil, false
						retry = true
						return
					}
					panic(r)
				}
			}()
			err = E.verifyFunc1(key, props)
		}()
		if !retry {
			return err
		}
	}
}

func (E *Engine) verifyFunc1(key string, props []string) (err error) {
	fn := E.Funcs[key]
	spec := E.CS.Funcs[key]
	if fn == nil {
		return fmt.Errorf("function %s not found in program", key)
	}
	if len(fn.Blocks) == 0 {
		return fmt.Errorf("function %s has no body", key)
	}
	c := &fnCtx{key: key, short: E.shortName(fn), fn: fn, spec: spec, props: map[string]bool{}, loopOf: map[*ssa.BasicBlock]*loopInfo{},
		compSort: map[string]string{}, touched: map[string]bool{}, params: map[string]*Val{}, ordinals: map[ssa.Instruction]int{},
		cellOf: map[*ssa.Alloc]*Cell{}, freeVars: map[*ssa.FreeVar]*Val{}, compPtr: map[string]bool{}, factSeen: map[string]bool{}, coveredLoop: map[int]bool{}}
	for _, p := range props {
		c.props[p] = true
	}
	E.cur = c
	defer func() {
		if r := recover(); r != nil {
			if ie, ok := r.(inlineErr); ok {
				panic(ie)
			}
			if ee, ok := r.(engineErr); ok {
				err = fmt.Errorf("%s: outside supported subset: %s", c.short, string(ee))
				return
			}
			// an internal error of the generator must never look like a pass: report it as an
			// undecided function (contract-binding obligation) instead of crashing the run
			err = fmt.Errorf("%s: internal error of the VC generator: %v", c.short, r)
		}
	}()
	E.analyzeLoops(c)
	// instruction ordinals per dynamic type
	cnt := map[string]int{}
	for _, b := range fn.Blocks {
		for _, in := range b.Instrs {
			t := fmt.Sprintf("%T", in)
			c.ordinals[in] = cnt[t]
			cnt[t]++
		}
	}
	if len(spec.Relational) > 0 {
		E.verifyRelational(c)
	}
	st := E.entryState(c, "")
	E.cover(st, "entry", "requires and type invariants are satisfiable", "")
	E.runBlock(st, fn.Blocks[0], nil)
	if c.paths == 0 {
		return fmt.Errorf("%s: no complete path", c.short)
	}
	E.labelVacuity(c)
	if len(spec.Captured) > 0 {
		E.verifyCaptured(c)
	}
	return nil
}

// markLabels records which call-log labels occur on some explored path of the current function.
func (E *Engine) markLabels(st *State) {
	c := E.cur
	if c == nil || E.dry > 0 {
		return
	}
	if c.labelHit == nil {
		c.labelHit = map[string]bool{}
	}
	for _, e := range st.log {
		c.labelHit[e.Label] = true
	}
	if c.spec != nil && len(c.spec.Never) > 0 && !st.dead {
		for _, cl := range c.spec.Never {
			for _, e := range st.log {
				if e.Label == cl.Text || strings.HasSuffix(e.Label, "."+cl.Text) {
					E.oblige(st, "never", cl.Text, "false", "no path performs "+cl.Text, "", cl)
					break
				}
			}
		}
	}
}

// labelVacuity: a clause that inspects the arguments / results / state of calls labelled L
// (arg, ret, atcall, lastret, ...) is vacuous if no path of the function ever logs L — typically
// a label that does not match what the call site is actually logged as. Reported as a failed
// obligation so that it cannot go unnoticed.
func (E *Engine) labelVacuity(c *fnCtx) {
	if c.spec == nil {
		return
	}
	strong := map[string]bool{"arg": true, "ret": true, "atcall": true, "aftercall": true, "lastret": true, "lastarg": true,
		"iter_arg": true, "iter_ret": true, "iter_atcall": true}
	refs := map[string]string{}
	var walk func(e *CExpr, text string)
	walk = func(e *CExpr, text string) {
		if e == nil {
			return
		}
		if e.Op == "call" && len(e.Args) >= 2 && e.Args[0].Op == "ident" && strong[e.Args[0].Name] {
			refs[e.Args[1].String()] = text
		}
		for _, a := range e.Args {
			walk(a, text)
		}
	}
	for _, cl := range c.spec.Ensures {
		walk(cl.Expr, cl.Text)
	}
	for _, l := range c.spec.Loops {
		for _, cl := range l.Body {
			walk(cl.Expr, cl.Text)
		}
	}
	var names []string
	for l := range refs {
		names = append(names, l)
	}
	sort.Strings(names)
	for _, l := range names {
		hit := false
		for h := range c.labelHit {
			if h == l || strings.HasSuffix(h, "."+l) || strings.HasSuffix(h, ")."+l) {
				hit = true
			}
		}
		if hit {
			continue
		}
		ob := &Oblig{Name: fmt.Sprintf("%s/label-never-logged#%s", c.short, l), Kind: "vacuity", Func: c.key,
			Goal: "some path logs a call labelled " + l + " (used in: " + refs[l] + ")", SMT: E.render(nil, "false", nil)}
		for p := range c.props {
			ob.Props = append(ob.Props, p)
		}
		sort.Strings(ob.Props)
		E.Obligs = append(E.Obligs, ob)
	}
}

func (E *Engine) newState() *State {
	return &State{regs: map[ssa.Value]*Val{}, heap: map[string]string{}, cells: map[*Cell]*Val{}, env: map[string]*Val{},
		locks: map[string]string{}, ghost: map[string]string{}, variantAt: map[*ssa.BasicBlock]string{}, inLoop: map[*ssa.BasicBlock]bool{}}
}

func (E *Engine) entryState(c *fnCtx, suffix string) *State {
	st := E.newState()
	fn := c.fn
	E.declare(fAlloc0, "() (Array Int Bool)")
	st.alloc = fAlloc0
	c.entryAlloc = st.alloc
	c.params = map[string]*Val{}
	c.paramList = nil
	var facts []string
	for _, p := range fn.Params {
		v := E.freshVal(p.Type(), "p:"+p.Name()+suffix, &facts)
		facts = append(facts, E.allocFacts(st, v)...)
		st.regs[p] = v
		st.env[p.Name()] = v
		c.params[p.Name()] = v
		c.paramList = append(c.paramList, v)
		c.inputs = append(c.inputs, E.inputTerms(st, p.Name()+suffix, v)...)
	}
	frozen := E.frozenFreeVars(fn)
	for _, fv := range fn.FreeVars {
		v := E.freshVal(fv.Type(), "fv:"+fv.Name()+suffix, &facts)
		if frozen[fv] && v.F == nil && v.S != "" {
			if pt, isPtr := types.Unalias(fv.Type()).Underlying().(*types.Pointer); isPtr && !strings.HasPrefix(E.rootName(pt.Elem()), "box<") {
				// out of every callee's reach (fragment.go): kept across havoc like a private object
				E.privNew(st, v.S, E.rootName(pt.Elem())+"!")
			}
		}
		facts = append(facts, E.allocFacts(st, v)...)
		if pt, isPtr := types.Unalias(fv.Type()).Underlying().(*types.Pointer); isPtr && v.F == nil {
			// a captured variable: a live cell of its own family
			facts = append(facts, not(eq(v.S, "0")))
			if strings.HasPrefix(E.rootName(pt.Elem()), "box<") {
				v.LV = &LVal{Kind: lvHeap, Ref: v.S, Root: pt.Elem(), VarCell: true}
			}
		}
		st.regs[fv] = v
		c.freeVars[fv] = v
		nv := *v
		if _, isPtr := types.Unalias(fv.Type()).Underlying().(*types.Pointer); isPtr {
			nv.AutoDeref = true
		}
		c.params[fv.Name()] = &nv
	}
	st.assume(facts...)
	c.entryHeap = st.heap // alias: lazily created H0 constants are shared
	st.heap = copyHeap(st.heap)
	// type invariants of the objects handed in
	for _, p := range fn.Params {
		E.assumeTypeInvs(st, st.regs[p])
	}
	// requires
	for _, cl := range c.spec.Requires {
		ev := E.cenvFor(st, c, cl.Ctx)
		ev.heap = st.heap
		r := ev.evalBool(cl.Expr)
		st.assume(r)
	}
	// the entry heap must see components created while evaluating requires
	for k, v := range st.heap {
		if _, ok := c.entryHeap[k]; !ok {
			c.entryHeap[k] = v
		}
	}
	// modifies lvalues (evaluated in the entry state)
	c.modLVs = E.evalModifies(st, c, c.spec, nil, nil)
	return st
}

// allocFacts: pointers reachable as scalars of v are nil or allocated.
func (E *Engine) allocFacts(st *State, v *Val) []string {
	var out []string
	var walk func(v *Val)
	walk = func(v *Val) {
		if v == nil {
			return
		}
		if v.F != nil {
			sh := E.shape(v.T)
			if sh.Kind == "slice" {
				out = append(out, or(eq(v.F[0].S, "0"), sx("select", st.alloc, v.F[0].S)))
				return
			}
			if sh.Kind == "iface" {
				if E.CS.PtrIfaces[namedKey(v.T)] {
					out = append(out, or(eq(v.F[1].S, "0"), sx("select", st.alloc, v.F[1].S)))
				}
				return
			}
			for _, f := range v.F {
				walk(f)
			}
			return
		}
		switch types.Unalias(v.T).Underlying().(type) {
		case *types.Pointer, *types.Map, *types.Chan:
			out = append(out, or(eq(v.S, "0"), sx("select", st.alloc, v.S)))
		}
	}
	walk(v)
	return out
}

func (E *Engine) analyzeLoops(c *fnCtx) {
	fn := c.fn
	var headers []*ssa.BasicBlock
	bodies := map[*ssa.BasicBlock]map[*ssa.BasicBlock]bool{}
	for _, b := range fn.Blocks {
		for _, s := range b.Succs {
			if s.Dominates(b) { // back edge b -> s
				if bodies[s] == nil {
					bodies[s] = map[*ssa.BasicBlock]bool{s: true}
					headers = append(headers, s)
				}
				// reverse DFS from b
				var stack []*ssa.BasicBlock
				if !bodies[s][b] {
					bodies[s][b] = true
					stack = append(stack, b)
				}
				for len(stack) > 0 {
					x := stack[len(stack)-1]
					stack = stack[:len(stack)-1]
					for _, p := range x.Preds {
						if !bodies[s][p] {
							bodies[s][p] = true
							stack = append(stack, p)
						}
					}
				}
			}
		}
	}
	sort.Slice(headers, func(i, j int) bool { return headers[i].Index < headers[j].Index })
	for i, h := range headers {
		li := &loopInfo{Header: h, Body: bodies[h], Ordinal: i}
		if c.spec != nil {
			li.Spec = c.spec.Loops[fmt.Sprint(i)]
		}
		c.loops = append(c.loops, li)
		c.loopOf[h] = li
	}
}

func (E *Engine) pos(in ssa.Instruction) string {
	p := in.Pos()
	if !p.IsValid() {
		// search nearby
		if v, ok := in.(ssa.Value); ok {
			_ = v
		}
		return ""
	}
	pp := E.Prog.Fset.Position(p)
	return fmt.Sprintf("%s:%d", strings.TrimPrefix(pp.Filename, E.RepoDir+"/"), pp.Line)
}

// ---------------------------------------------------------------------------
// Block / path execution

func (E *Engine) runBlock(st *State, b *ssa.BasicBlock, from *ssa.BasicBlock) {
	c := E.cur
	if c.paths > E.MaxPaths {
		panic(engineErr("path limit exceeded"))
	}
	st.path = append(st.path, fmt.Sprint(b.Index))
	if li, ok := c.loopOf[b]; ok && from != nil {
		if li.Body[from] {
			E.loopBack(st, li, from)
			return
		}
		if !E.loopEnter(st, li, from) {
			return
		}
	} else if from != nil {
		E.evalPhis(st, b, from)
	}
	E.runFrom(st, b, firstNonPhi(b))
}

func firstNonPhi(b *ssa.BasicBlock) int {
	for i, in := range b.Instrs {
		if _, ok := in.(*ssa.Phi); !ok {
			return i
		}
	}
	return len(b.Instrs)
}

func (E *Engine) evalPhis(st *State, b, from *ssa.BasicBlock) {
	idx := -1
	for i, p := range b.Preds {
		if p == from {
			idx = i
		}
	}
	var vals []*Val
	var phis []*ssa.Phi
	for _, in := range b.Instrs {
		phi, ok := in.(*ssa.Phi)
		if !ok {
			break
		}
		phis = append(phis, phi)
		vals = append(vals, E.val(st, phi.Edges[idx]))
	}
	for i, phi := range phis {
		st.regs[phi] = retype(vals[i], phi.Type())
		if phi.Comment != "" {
			st.env[phi.Comment] = st.regs[phi]
		}
	}
}

func (E *Engine) bindLoopNames(st *State, li *loopInfo) {
	for _, in := range li.Header.Instrs {
		phi, ok := in.(*ssa.Phi)
		if !ok {
			break
		}
		if phi.Comment == "rangeindex" {
			v := st.regs[phi]
			st.env[fmt.Sprintf("ri%d", li.Ordinal)] = v
			st.env[fmt.Sprintf("it%d", li.Ordinal)] = &Val{T: tInt, S: sx("+", v.S, "1"), Sort: SInt}
		}
	}
}

func (E *Engine) loopInvs(st *State, li *loopInfo) []struct {
	cl *Clause
	f  string
} {
	var out []struct {
		cl *Clause
		f  string
	}
	if li.Spec == nil {
		return out
	}
	for _, cl := range li.Spec.Invs {
		ev := E.cenvFor(st, E.cur, cl.Ctx)
		ev.loopMode = true
		ev.goal = E.provingInv
		out = append(out, struct {
			cl *Clause
			f  string
		}{cl, ev.evalBool(cl.Expr)})
	}
	return out
}

// inferred invariants: range index bounds.
func (E *Engine) inferredInvs(st *State, li *loopInfo) []string {
	var out []string
	for _, in := range li.Header.Instrs {
		phi, ok := in.(*ssa.Phi)
		if !ok {
			break
		}
		if phi.Comment == "rangeindex" {
			out = append(out, sx(">=", st.regs[phi].S, "(- 1)"))
			// upper bound: find the comparison "t+1 < len"
			for _, in2 := range li.Header.Instrs {
				if bo, ok := in2.(*ssa.BinOp); ok && bo.Op == token.LSS {
					if add, ok := bo.X.(*ssa.BinOp); ok && add.X == phi {
						if lv, ok2 := st.regs[bo.Y]; ok2 && lv != nil {
							out = append(out, sx("<", st.regs[phi].S, lv.S))
						} else if cst, ok3 := bo.Y.(*ssa.Const); ok3 {
							out = append(out, sx("<", st.regs[phi].S, E.constVal(cst).S))
						}
					}
				}
			}
		}
	}
	return out
}

func (E *Engine) loopEnter(st *State, li *loopInfo, from *ssa.BasicBlock) bool {
	c := E.cur
	E.evalPhis(st, li.Header, from)
	E.bindLoopNames(st, li)
	site := fmt.Sprintf("loop%d", li.Ordinal)
	E.provingInv = true
	entryInvs := E.loopInvs(st, li)
	E.provingInv = false
	for i, inv := range entryInvs {
		E.oblige(st, "inv-entry", fmt.Sprintf("%s.%d", site, i), inv.f, inv.cl.Text, E.blockPos(li.Header), inv.cl)
	}
	for _, f := range E.inferredInvs(st, li) {
		E.oblige(st, "inv-entry", site+".range", f, "range index bounds", E.blockPos(li.Header), nil)
	}
	if li.Spec != nil && E.dry == 0 {
		for i, cl := range li.Spec.Entry {
			ev := E.cenvFor(st, c, cl.Ctx)
			ev.loopMode = true
			ev.goal = true
			E.oblige(st, "loop-entry", fmt.Sprintf("%s.%d", site, i), ev.evalBool(cl.Expr), cl.Text, E.blockPos(li.Header), cl)
		}
	}
	// dry run to collect the loop's write set
	written, cellsW := E.dryRunLoop(st, li)
	// havoc
	for _, in := range li.Header.Instrs {
		phi, ok := in.(*ssa.Phi)
		if !ok {
			break
		}
		var facts []string
		nv := E.freshVal(phi.Type(), "l:"+phi.Comment, &facts)
		old := st.regs[phi]
		if old != nil && old.LV != nil {
			panic(engineErr("loop-carried derived pointer " + phi.Name()))
		}
		if old != nil && old.Fn != nil {
			nv.Fn = old.Fn
		}
		st.regs[phi] = nv
		st.assume(facts...)
		if phi.Comment != "" {
			st.env[phi.Comment] = nv
		}
	}
	// map iterators advanced in this loop: their visited sets are loop-carried ghosts
	for blk := range li.Body {
		for _, in := range blk.Instrs {
			if nx, ok := in.(*ssa.Next); ok && !nx.IsString {
				if itv, ok2 := st.regs[nx.Iter]; ok2 && itv != nil {
					if it := E.iters[itv.S]; it != nil && it.m != nil {
						_, ks, _ := E.mapInfo(it.m.T)
						st.ghost["visited:"+itv.S] = E.freshConst("visited", fmt.Sprintf("(Array %s Bool)", ks))
						st.ghost["loopiter:"+fmt.Sprint(li.Ordinal)] = itv.S
					}
				}
			}
		}
	}
	var ws []string
	for w := range written {
		ws = append(ws, w)
	}
	sort.Strings(ws)
	for _, w := range ws {
		E.havocComp(st, w)
	}
	for cell := range cellsW {
		var facts []string
		st.cells[cell] = E.freshVal(cell.T, "lc:"+cell.Name, &facts)
		st.assume(facts...)
		if st.cellsWritten != nil {
			st.cellsWritten[cell] = true
		}
	}
	if len(ws) > 0 || true {
		// allocation may have grown
		na := E.freshConst("alloc", "(Array Int Bool)")
		r := E.freshName("r")
		st.assume(fmt.Sprintf("(forall ((%s Int)) (! (=> (select %s %s) (select %s %s)) :pattern ((select %s %s)) :pattern ((select %s %s))))", r, st.alloc, r, na, r, na, r, st.alloc, r))
		st.alloc = na
	}
	// pointer well-formedness of havoced phis
	for _, in := range li.Header.Instrs {
		phi, ok := in.(*ssa.Phi)
		if !ok {
			break
		}
		st.assume(E.allocFacts(st, st.regs[phi])...)
	}
	E.bindLoopNames(st, li)
	for _, inv := range E.loopInvs(st, li) {
		st.assume(inv.f)
	}
	st.assume(E.inferredInvs(st, li)...)
	if li.Spec != nil && li.Spec.Decr != nil {
		ev := E.cenvFor(st, c, li.Spec.Decr.Ctx)
		ev.loopMode = true
		st.variantAt[li.Header] = ev.eval(li.Spec.Decr.Expr).S
	}
	st.inLoop[li.Header] = true
	if st.loopLog == nil {
		st.loopLog = map[int]int{}
	}
	st.loopLog[li.Ordinal] = len(st.log)
	st.ghost["curloop"] = fmt.Sprint(li.Ordinal)
	// snapshot of the locals and the heap at the head of this iteration: athead(e) in `each`
	if st.headEnv == nil {
		st.headEnv = map[int]map[string]*Val{}
		st.headHeap = map[int]map[string]string{}
	}
	he := make(map[string]*Val, len(st.env))
	for k, v := range st.env {
		he[k] = v
	}
	st.headEnv[li.Ordinal] = he
	st.headHeap[li.Ordinal] = copyHeap(st.heap)
	st.ghost[fmt.Sprintf("headalloc:%d", li.Ordinal)] = st.alloc
	if c.coveredLoopN == nil {
		c.coveredLoopN = map[int]int{}
	}
	if c.coveredLoopN[li.Ordinal] < 4 {
		c.coveredLoopN[li.Ordinal]++
		c.coveredLoop[li.Ordinal] = true
		E.cover(st, fmt.Sprintf("loop%d", li.Ordinal), "loop invariants are satisfiable at the loop head", E.blockPos(li.Header))
		if ri, ok := st.env[fmt.Sprintf("ri%d", li.Ordinal)]; ok && ri != nil && ri.S != "" {
			// the invariants must not pin the loop to its first iteration (e.g. by equating the
			// iteration count with a call count, which is per path)
			E.coverWith(st, fmt.Sprintf("loop%d.later", li.Ordinal), "loop invariants are satisfiable at the head of a later iteration", E.blockPos(li.Header), sx(">=", ri.S, "0"))
		}
	}
	return true
}

func (E *Engine) blockPos(b *ssa.BasicBlock) string {
	for _, in := range b.Instrs {
		if p := E.pos(in); p != "" {
			return p
		}
	}
	return ""
}

func (E *Engine) loopBack(st *State, li *loopInfo, from *ssa.BasicBlock) {
	c := E.cur
	if E.dry > 0 {
		return
	}
	E.evalPhis(st, li.Header, from)
	E.bindLoopNames(st, li)
	site := fmt.Sprintf("loop%d", li.Ordinal)
	E.provingInv = true
	backInvs := E.loopInvs(st, li)
	E.provingInv = false
	for i, inv := range backInvs {
		E.oblige(st, "inv-preserve", fmt.Sprintf("%s.%d", site, i), inv.f, inv.cl.Text, E.blockPos(li.Header), inv.cl)
	}
	for _, f := range E.inferredInvs(st, li) {
		E.oblige(st, "inv-preserve", site+".range", f, "range index bounds", E.blockPos(li.Header), nil)
	}
	E.markLabels(st)
	if li.Spec != nil {
		st.ghost["curloop"] = fmt.Sprint(li.Ordinal)
		for i, cl := range li.Spec.Body {
			ev := E.cenvFor(st, c, cl.Ctx)
			ev.loopMode = true
			ev.goal = true
			E.oblige(st, "each", fmt.Sprintf("%s.%d", site, i), ev.evalBool(cl.Expr), cl.Text, E.blockPos(li.Header), cl)
		}
	}
	if li.Spec != nil && li.Spec.Decr != nil {
		ev := E.cenvFor(st, c, li.Spec.Decr.Ctx)
		ev.loopMode = true
		nv := ev.eval(li.Spec.Decr.Expr).S
		ov := st.variantAt[li.Header]
		E.oblige(st, "variant", site, and(sx("<", nv, ov), sx(">=", ov, "0")), "decreases "+li.Spec.Decr.Text, E.blockPos(li.Header), li.Spec.Decr)
	}
	c.paths++
}

// dryRunLoop executes the loop body once without emitting obligations, to
// collect which heap components and local cells it may write.
func (E *Engine) dryRunLoop(st *State, li *loopInfo) (map[string]bool, map[*Cell]bool) {
	d := st.clone()
	d.written = map[string]bool{}
	d.cellsWritten = map[*Cell]bool{}
	E.dry++
	savedPaths := E.cur.paths
	E.dryLoops = append(E.dryLoops, li)
	esc := map[string]bool{}
	E.dryEsc = append(E.dryEsc, esc)
	func() {
		defer func() {
			E.dry--
			E.dryLoops = E.dryLoops[:len(E.dryLoops)-1]
			E.dryEsc = E.dryEsc[:len(E.dryEsc)-1]
			E.cur.paths = savedPaths
		}()
		E.runFrom(d, li.Header, firstNonPhi(li.Header))
	}()
	// objects that escape somewhere in the body are not private at the head of an arbitrary iteration
	for ref := range esc {
		E.privDrop(st, ref)
	}
	if st.written != nil {
		for k := range d.written {
			st.written[k] = true
		}
		for k := range d.cellsWritten {
			st.cellsWritten[k] = true
		}
	}
	return d.written, d.cellsWritten
}

func (E *Engine) runFrom(st *State, b *ssa.BasicBlock, i int) {
	for ; i < len(b.Instrs); i++ {
		in := b.Instrs[i]
		switch x := in.(type) {
		case *ssa.If:
			cv := E.val(st, x.Cond)
			switch foldBool(cv.S) {
			case "true":
				E.gotoBlock(st, b.Succs[0], b)
				return
			case "false":
				E.gotoBlock(st, b.Succs[1], b)
				return
			}
			t := st.clone()
			t.assume(cv.S)
			E.gotoBlock(t, b.Succs[0], b)
			st.assume(not(cv.S))
			E.gotoBlock(st, b.Succs[1], b)
			return
		case *ssa.Jump:
			E.gotoBlock(st, b.Succs[0], b)
			return
		case *ssa.Return:
			E.doReturn(st, x)
			return
		case *ssa.Panic:
			E.doPanic(st, x)
			return
		}
		if E.fragment && in == E.fragStop {
			E.fragAt(st)
			return
		}
		E.curInstr = in
		alts := E.execInstrGuarded(st, in)
		if alts == nil {
			continue
		}
		for _, a := range alts {
			if a.dead {
				continue
			}
			E.runFrom(a, b, i+1)
		}
		return
	}
}

func (E *Engine) gotoBlock(st *State, to, from *ssa.BasicBlock) {
	if E.dry > 0 {
		// stay inside the innermost dry loop
		li := E.dryLoops[len(E.dryLoops)-1]
		if !li.Body[to] && to.Parent() == E.cur.fn {
			return
		}
		if to == li.Header {
			E.privDryBack(st, li, from)
			return
		}
	} else if from != nil && E.cur != nil {
		// `exit` clauses of every loop this edge leaves
		var lis []*loopInfo
		for _, li := range E.cur.loopOf {
			if li.Spec != nil && len(li.Spec.Exit) > 0 && li.Body[from] && !li.Body[to] {
				lis = append(lis, li)
			}
		}
		sort.Slice(lis, func(i, j int) bool { return lis[i].Ordinal < lis[j].Ordinal })
		for _, li := range lis {
			for i, cl := range li.Spec.Exit {
				ev := E.cenvFor(st, E.cur, cl.Ctx)
				ev.loopMode = true
				ev.goal = true
				E.oblige(st, "loop-exit", fmt.Sprintf("loop%d.%d", li.Ordinal, i), ev.evalBool(cl.Expr), cl.Text, E.blockPos(li.Header), cl)
			}
		}
	}
	E.runBlock(st, to, from)
}

// ---------------------------------------------------------------------------
// Values

func (E *Engine) val(st *State, v ssa.Value) *Val {
	switch x := v.(type) {
	case *ssa.Const:
		return E.constVal(x)
	case *ssa.Global:
		name := x.Pkg.Pkg.Path() + "." + x.Name()
		et := x.Type().(*types.Pointer).Elem()
		return &Val{T: x.Type(), LV: &LVal{Kind: lvGlobal, Global: name, Root: et}}
	case *ssa.Function:
		return &Val{T: x.Type(), S: "1", Sort: SInt, Fn: &FnVal{Key: stripGenerics(x.String()), Fn: x}}
	case *ssa.Builtin:
		return &Val{T: x.Type(), Fn: &FnVal{Key: "builtin:" + x.Name()}}
	}
	r, ok := st.regs[v]
	if (!ok || r == nil) && E.fragment {
		return E.fragVal(st, v)
	}
	if !ok || r == nil {
		panic(engineErr(fmt.Sprintf("value %s (%T) not defined on this path", v.Name(), v)))
	}
	return r
}

func (E *Engine) constVal(c *ssa.Const) *Val {
	T := c.Type()
	if c.Value == nil {
		return E.zeroVal(T)
	}
	switch c.Value.Kind() {
	case constant.Bool:
		if constant.BoolVal(c.Value) {
			return &Val{T: T, S: "true", Sort: SBool}
		}
		return &Val{T: T, S: "false", Sort: SBool}
	case constant.String:
		return &Val{T: T, S: E.strLit(constant.StringVal(c.Value)), Sort: SStr}
	case constant.Int:
		n, _ := new(big.Int).SetString(c.Value.ExactString(), 10)
		return &Val{T: T, S: bigLit(n), Sort: SInt}
	case constant.Float:
		if f, ok := constant.Int64Val(constant.ToInt(c.Value)); ok {
			return &Val{T: T, S: intLit(f), Sort: SInt}
		}
		return &Val{T: T, S: E.freshConst("fconst", SInt), Sort: SInt}
	}
	panic(engineErr("unsupported constant " + c.String()))
}

func (E *Engine) strLit(s string) string {
	if n, ok := E.strLits[s]; ok {
		return n
	}
	name := qsym(fmt.Sprintf("str:%q", s))
	if len(s) > 40 {
		name = qsym(fmt.Sprintf("str:%q…%d", s[:40], len(E.strLits)))
	}
	E.declare(name, "() "+SStr)
	fs := []string{eq(sx(fSlen, name), intLit(int64(len(s))))}
	for i := 0; i < len(s); i++ {
		fs = append(fs, eq(sx(fSat, name, intLit(int64(i))), intLit(int64(s[i]))))
	}
	E.axioms = append(E.axioms, axiom{Name: "lit", Body: and(fs...), Trigger: []string{name}})
	E.strLits[s] = name
	return name
}

// wrapSt: like wrapTo, but encoded linearly: a fresh result r with
// r = t + 2^w * k (k a fresh integer) and lo <= r <= hi. Much friendlier to the
// arithmetic solvers than mod; for small constants the mod form is kept.
func (E *Engine) wrapSt(st *State, T types.Type, t string) string {
	lo, hi, ok := intRange(T)
	if !ok {
		return t
	}
	if c, isC := isConstTerm(t); isC {
		w := bitWidth(T)
		m := pow2(w)
		r := new(big.Int).Mod(c, m)
		if lo.Sign() < 0 && r.Cmp(hi) > 0 {
			r.Sub(r, m)
		}
		return bigLit(r)
	}
	w := bitWidth(T)
	if w <= 16 {
		return wrapTo(T, t)
	}
	r := E.freshConst("wrap", SInt)
	k := E.freshConst("wk", SInt)
	st.assume(eq(r, sx("+", t, sx("*", pow2(w).String(), k))), sx("<=", bigLit(lo), r), sx("<=", r, bigLit(hi)))
	return r
}

// wrap reduces a mathematical result to the range of T (Go wrap-around semantics).
func wrapTo(T types.Type, t string) string {
	lo, hi, ok := intRange(T)
	if !ok {
		return t
	}
	w := bitWidth(T)
	m := pow2(w).String()
	if lo.Sign() == 0 {
		_ = hi
		return sx("mod", t, m)
	}
	h := pow2(w - 1).String()
	return sx("-", sx("mod", sx("+", t, h), m), h)
}

func inRange(T types.Type, t string) string {
	lo, hi, ok := intRange(T)
	if !ok {
		return "true"
	}
	return and(sx("<=", bigLit(lo), t), sx("<=", t, bigLit(hi)))
}

func isConstTerm(t string) (*big.Int, bool) {
	s := t
	neg := false
	if strings.HasPrefix(s, "(- ") && strings.HasSuffix(s, ")") {
		neg = true
		s = s[3 : len(s)-1]
	}
	n, ok := new(big.Int).SetString(s, 10)
	if !ok {
		return nil, false
	}
	if neg {
		n.Neg(n)
	}
	return n, true
}

// bit operations with a constant operand (x nonneg within width w)
func (E *Engine) bitOp(op token.Token, T types.Type, x, y string) string {
	w := bitWidth(T)
	cx, okx := isConstTerm(x)
	cy, oky := isConstTerm(y)
	if okx && oky {
		r := new(big.Int)
		switch op {
		case token.AND:
			r.And(cx, cy)
		case token.OR:
			r.Or(cx, cy)
		case token.XOR:
			r.Xor(cx, cy)
		case token.AND_NOT:
			r.AndNot(cx, cy)
		}
		return bigLit(r)
	}
	if okx && !oky && op != token.AND_NOT {
		x, y, cx, cy, okx, oky = y, x, cy, cx, oky, okx
	}
	signed := !isUnsigned(T)
	if oky && cy.Sign() >= 0 && !(signed && false) {
		// x op const
		bit := func(k uint) string { return sx("mod", sx("div", x, pow2(k).String()), "2") }
		switch op {
		case token.AND:
			// mask of low bits?
			if new(big.Int).And(cy, new(big.Int).Add(cy, big.NewInt(1))).Sign() == 0 {
				return sx("mod", x, new(big.Int).Add(cy, big.NewInt(1)).String())
			}
			var terms []string
			for k := uint(0); k < w; k++ {
				if cy.Bit(int(k)) == 1 {
					terms = append(terms, sx("*", pow2(k).String(), bit(k)))
				}
			}
			if len(terms) == 0 {
				return "0"
			}
			if len(terms) == 1 {
				return terms[0]
			}
			return sx("+", terms...)
		case token.OR:
			terms := []string{x}
			for k := uint(0); k < w; k++ {
				if cy.Bit(int(k)) == 1 {
					terms = append(terms, sx("*", pow2(k).String(), sx("-", "1", bit(k))))
				}
			}
			if len(terms) == 1 {
				return x
			}
			return sx("+", terms...)
		case token.XOR:
			terms := []string{x}
			for k := uint(0); k < w; k++ {
				if cy.Bit(int(k)) == 1 {
					terms = append(terms, sx("*", pow2(k).String(), sx("-", "1", sx("*", "2", bit(k)))))
				}
			}
			return sx("+", terms...)
		case token.AND_NOT:
			terms := []string{x}
			for k := uint(0); k < w; k++ {
				if cy.Bit(int(k)) == 1 {
					terms = append(terms, sx("*", pow2(k).String(), bit(k)))
				}
			}
			if len(terms) == 1 {
				return x
			}
			return sx("-", terms...)
		}
	}
	// general case: uninterpreted (sound, incomplete)
	name := qsym(fmt.Sprintf("bv%s%d", op.String(), w))
	E.declare(name, "(Int Int) Int")
	E.note("bitwise %s on two non-constant operands is uninterpreted", op)
	return sx(name, x, y)
}

func (E *Engine) binop(st *State, in *ssa.BinOp) *Val {
	x, y := E.val(st, in.X), E.val(st, in.Y)
	T := in.Type()
	switch in.Op {
	case token.EQL, token.NEQ:
		e := E.valEq(st, x, y)
		if in.Op == token.NEQ {
			e = not(e)
		}
		return boolVal(e)
	}
	if x.Sort == SBool {
		switch in.Op {
		case token.LAND, token.AND:
			return boolVal(and(x.S, y.S))
		case token.LOR, token.OR:
			return boolVal(or(x.S, y.S))
		}
	}
	if x.Sort == SStr {
		switch in.Op {
		case token.ADD:
			return &Val{T: T, S: sx(fConcat, x.S, y.S), Sort: SStr}
		case token.LSS, token.LEQ, token.GTR, token.GEQ:
			E.note("string ordering comparison is uninterpreted")
			name := qsym("strcmp")
			E.declare(name, "(Str Str) Int")
			c := sx(name, x.S, y.S)
			op := map[token.Token]string{token.LSS: "<", token.LEQ: "<=", token.GTR: ">", token.GEQ: ">="}[in.Op]
			return boolVal(sx(op, c, "0"))
		}
	}
	if b, ok := types.Unalias(in.X.Type()).Underlying().(*types.Basic); ok && b.Info()&types.IsFloat != 0 {
		E.note("floating point operation %s is uninterpreted", in.Op)
		sh := E.shape(T)
		return &Val{T: T, S: E.freshConst("float", sh.Sort), Sort: sh.Sort}
	}
	xs, ys := x.S, y.S
	switch in.Op {
	case token.LSS:
		return boolVal(sx("<", xs, ys))
	case token.LEQ:
		return boolVal(sx("<=", xs, ys))
	case token.GTR:
		return boolVal(sx(">", xs, ys))
	case token.GEQ:
		return boolVal(sx(">=", xs, ys))
	}
	var r string
	arith := false
	switch in.Op {
	case token.ADD:
		r, arith = sx("+", xs, ys), true
	case token.SUB:
		r, arith = sx("-", xs, ys), true
	case token.MUL:
		r, arith = sx("*", xs, ys), true
	case token.QUO:
		E.oblige(st, "div-zero", E.site(in), not(eq(ys, "0")), "divisor != 0", E.pos(in), nil)
		// Go truncates toward zero
		if isUnsigned(T) {
			r = sx("div", xs, ys)
		} else {
			r = ite(sx(">=", xs, "0"), sx("div", xs, ys), sx("-", sx("div", sx("-", xs), ys)))
			if c, ok := isConstTerm(ys); ok && c.Sign() > 0 {
				r = ite(sx(">=", xs, "0"), sx("div", xs, ys), sx("-", sx("div", sx("-", xs), ys)))
			}
		}
	case token.REM:
		E.oblige(st, "div-zero", E.site(in), not(eq(ys, "0")), "divisor != 0", E.pos(in), nil)
		if isUnsigned(T) {
			r = sx("mod", xs, ys)
		} else {
			r = ite(sx(">=", xs, "0"), sx("mod", xs, sx("abs", ys)), sx("-", sx("mod", sx("-", xs), sx("abs", ys))))
		}
	case token.SHL:
		if c, ok := isConstTerm(ys); ok && c.IsInt64() && c.Int64() < 128 {
			r = E.wrapSt(st, T, sx("*", xs, pow2(uint(c.Int64())).String()))
		} else {
			name := qsym("pow2")
			E.declare(name, "(Int) Int")
			E.addPow2Axioms(name)
			r = E.wrapSt(st, T, sx("*", xs, sx(name, ys)))
		}
	case token.SHR:
		if c, ok := isConstTerm(ys); ok && c.IsInt64() && c.Int64() < 128 {
			r = sx("div", xs, pow2(uint(c.Int64())).String())
		} else {
			name := qsym("pow2")
			E.declare(name, "(Int) Int")
			E.addPow2Axioms(name)
			r = sx("div", xs, sx(name, ys))
		}
	case token.AND, token.OR, token.XOR, token.AND_NOT:
		if !isUnsigned(T) {
			// signed: only sound for non-negative operands; require it
			E.oblige(st, "bitop-nonneg", E.site(in), and(sx(">=", xs, "0"), sx(">=", ys, "0")), "operands of signed bit operation are non-negative", E.pos(in), nil)
		}
		r = E.bitOp(in.Op, T, xs, ys)
	default:
		panic(engineErr("unsupported binop " + in.Op.String()))
	}
	if arith {
		if _, _, ok := intRange(T); ok {
			if isUnsigned(T) || (E.cur.spec != nil && E.cur.spec.WrapSigned) {
				r = E.wrapSt(st, T, r)
			} else {
				E.oblige(st, "overflow", E.site(in), inRange(T, r), fmt.Sprintf("no signed overflow in %s", in.Op), E.pos(in), nil)
			}
		}
	}
	return &Val{T: T, S: r, Sort: SInt}
}

func (E *Engine) addPow2Axioms(name string) {
	if E.specDecl["pow2ax"] {
		return
	}
	E.specDecl["pow2ax"] = true
	var fs []string
	for k := 0; k <= 64; k++ {
		fs = append(fs, eq(sx(name, intLit(int64(k))), pow2(uint(k)).String()))
	}
	E.axioms = append(E.axioms, axiom{Name: "pow2", Body: and(fs...), Trigger: []string{name}})
}

func (E *Engine) site(in ssa.Instruction) string {
	if fn := in.Parent(); fn != nil && E.cur != nil && fn != E.cur.fn {
		// an instruction of a helper executed in place
		ord := E.inlOrd[fn]
		if ord == nil {
			ord = map[ssa.Instruction]int{}
			cnt := map[string]int{}
			for _, b := range fn.Blocks {
				for _, x := range b.Instrs {
					t := fmt.Sprintf("%T", x)
					ord[x] = cnt[t]
					cnt[t]++
				}
			}
			E.inlOrd[fn] = ord
		}
		return fmt.Sprintf("%s%d@%s", strings.TrimPrefix(fmt.Sprintf("%T", in), "*ssa."), ord[in], fn.Name())
	}
	return fmt.Sprintf("%s%d", strings.TrimPrefix(fmt.Sprintf("%T", in), "*ssa."), E.cur.ordinals[in])
}

// valEq: Go == on two values of the same type.
func (E *Engine) valEq(st *State, x, y *Val) string {
	if x.F != nil || y.F != nil {
		if x.F == nil || y.F == nil {
			// interface vs concrete etc. — compare via shapes
			panic(engineErr("comparison of mismatched shapes"))
		}
		sh := E.shape(x.T)
		if sh.Kind == "slice" {
			// only s == nil is legal
			return eq(x.F[0].S, y.F[0].S)
		}
		if sh.Kind == "iface" {
			// comparison with the nil interface: the type tag decides
			if y.F[0].S == "0" && y.F[1].S == "0" {
				return eq(x.F[0].S, "0")
			}
			if x.F[0].S == "0" && x.F[1].S == "0" {
				return eq(y.F[0].S, "0")
			}
		}
		var cs []string
		for i := range x.F {
			cs = append(cs, E.valEq(st, x.F[i], y.F[i]))
		}
		return and(cs...)
	}
	if x.Sort == SStr {
		return sx(fSeq, x.S, y.S)
	}
	if x.S == "" || y.S == "" {
		// derived pointers
		if x.LV != nil && y.S == "0" || y.LV != nil && x.S == "0" {
			return "false"
		}
		panic(engineErr("comparison of derived pointers"))
	}
	return eq(x.S, y.S)
}

func (E *Engine) doPanic(st *State, in *ssa.Panic) {
	c := E.cur
	if E.dry > 0 {
		return
	}
	E.markLabels(st)
	if c.spec != nil && c.spec.Panics != nil {
		ev := E.cenvFor(st, c, c.spec.Panics.Ctx)
		ev.entryNames = true
		ev.heap = c.entryHeap // the condition is about the pre-state
		f := ev.evalBool(c.spec.Panics.Expr)
		E.oblige(st, "panic-allowed", E.site(in), f, "panics only when "+c.spec.Panics.Text, E.pos(in), c.spec.Panics)
	} else {
		E.oblige(st, "panic-unreachable", E.site(in), "false", "explicit panic is unreachable", E.pos(in), nil)
	}
	c.paths++
}

// foldBool decides conditions that are literally constant (comparisons of integer literals,
// e.g. the case index of a select): "true", "false" or "" (not constant).
func foldBool(s string) string {
	s = strings.TrimSpace(s)
	if s == "true" || s == "false" {
		return s
	}
	if strings.HasPrefix(s, "(not ") && strings.HasSuffix(s, ")") {
		switch foldBool(s[5 : len(s)-1]) {
		case "true":
			return "false"
		case "false":
			return "true"
		}
		return ""
	}
	for _, op := range []string{"<=", ">=", "<", ">"} {
		if strings.HasPrefix(s, "("+op+" ") && strings.HasSuffix(s, ")") {
			fs := strings.Fields(s[len(op)+2 : len(s)-1])
			if len(fs) == 2 && isIntLit(fs[0]) && isIntLit(fs[1]) {
				a, _ := new(big.Int).SetString(fs[0], 10)
				b, _ := new(big.Int).SetString(fs[1], 10)
				if a != nil && b != nil {
					c := a.Cmp(b)
					r := false
					switch op {
					case "<=":
						r = c <= 0
					case ">=":
						r = c >= 0
					case "<":
						r = c < 0
					case ">":
						r = c > 0
					}
					if r {
						return "true"
					}
					return "false"
				}
			}
			return ""
		}
	}
	if strings.HasPrefix(s, "(= ") && strings.HasSuffix(s, ")") {
		fs := strings.Fields(s[3 : len(s)-1])
		if len(fs) == 2 && isIntLit(fs[0]) && isIntLit(fs[1]) {
			if fs[0] == fs[1] {
				return "true"
			}
			return "false"
		}
		// (= (- 1) 0)
		body := s[3 : len(s)-1]
		if strings.HasPrefix(body, "(- ") {
			j := strings.Index(body, ")")
			a, b := strings.TrimSpace(body[3:j]), strings.TrimSpace(body[j+1:])
			if isIntLit(a) && isIntLit(b) {
				return "false" // a negative literal never equals a non-negative one
			}
		}
	}
	return ""
}

func isIntLit(s string) bool {
	if s == "" {
		return false
	}
	for _, c := range s {
		if c < '0' || c > '9' {
			return false
		}
	}
	return true
}

// execInstrGuarded: an engine error raised by an instruction of a helper executed in place
// disqualifies that helper (the enclosing function is redone without inlining it).
func (E *Engine) execInstrGuarded(st *State, in ssa.Instruction) []*State {
	if len(st.frames) == 0 {
		return E.execInstr(st, in)
	}
	fn := st.frames[len(st.frames)-1].fn
	if in.Parent() != fn {
		return E.execInstr(st, in)
	}
	var alts []*State
	func() {
		defer func() {
			if r := recover(); r != nil {
				if ee, ok := r.(engineErr); ok {
					panic(inlineErr{fn: fn, msg: string(ee)})
				}
				panic(r)
			}
		}()
		alts = E.execInstr(st, in)
	}()
	return alts
}
