package gocv

import (
	"fmt"
	"sort"
	"go/constant"
	"go/types"
	"math/big"
	"regexp"
	"strings"

	"golang.org/x/tools/go/ssa"
)

type cenv struct {
	E          *Engine
	st         *State
	fc         *fnCtx
	vars       map[string]*Val
	heap       map[string]string
	oldHeap    map[string]string
	oldVars    map[string]*Val
	oldAlloc   string
	ctx        *FileCtx
	loopMode   bool
	entryNames bool
	bound      map[string]*Val
	depth      int
	goal       bool // the clause is being proved (not assumed): add witness candidates to exists
	noUnfold   bool // inside the body of a recursive spec function: inner applications stay folded
	unfoldLvl  int  // nesting depth of definitional unfoldings (max 2)
}

func (E *Engine) cenvFor(st *State, c *fnCtx, ctx *FileCtx) *cenv {
	return &cenv{E: E, st: st, fc: c, vars: c.params, heap: st.heap, oldHeap: c.entryHeap, oldVars: c.params, oldAlloc: c.entryAlloc, ctx: ctx}
}

func (ev *cenv) fail(f string, a ...interface{}) {
	panic(engineErr("contract: " + fmt.Sprintf(f, a...)))
}

func (ev *cenv) evalBool(e *CExpr) string {
	v := ev.eval(e)
	if isMissing(v) {
		return ev.unknownBool().S
	}
	if v == nil || v.Sort != SBool {
		ev.fail("expected boolean: %s", e.String())
	}
	return v.S
}

func (ev *cenv) alloc() string {
	if ev.st != nil {
		return ev.st.alloc
	}
	return fAlloc0
}

var nilType = types.Typ[types.UntypedNil]

// missing: the value of arg()/ret()/atcall() when the path has no such call. Any
// atom built from it is an unconstrained boolean, so a clause is provable only
// if its guard excludes the path.
var missingType = types.NewNamed(types.NewTypeName(0, nil, "missing", nil), types.Typ[types.Invalid], nil)

func isMissing(v *Val) bool { return v != nil && v.T == missingType }
func missingVal() *Val      { return &Val{T: missingType, S: "0", Sort: SInt} }
func (ev *cenv) unknownBool() *Val {
	return boolVal(ev.E.freshConst("nocall", SBool))
}

func (ev *cenv) lookupIdent(name string) *Val {
	if v, ok := ev.bound[name]; ok {
		return v
	}
	if ev.loopMode && ev.st != nil {
		if v, ok := ev.st.env[name]; ok {
			return v
		}
	}
	if v, ok := ev.vars[name]; ok {
		return v
	}
	switch name {
	case "nil":
		return &Val{T: nilType, S: "0", Sort: SInt}
	case "true":
		return boolVal("true")
	case "false":
		return boolVal("false")
	}
	if ev.st != nil && !ev.entryNames {
		if v, ok := ev.st.env[name]; ok {
			return v
		}
	}
	// package-level constant or variable
	if ev.ctx != nil && ev.ctx.PkgPath != "" {
		if o := ev.E.lookupObj(ev.ctx.PkgPath, name); o != nil {
			return ev.objVal(o)
		}
	}
	if ev.fc != nil && ev.fc.fn != nil && ev.fc.fn.Pkg != nil {
		if o := ev.fc.fn.Pkg.Pkg.Scope().Lookup(name); o != nil {
			return ev.objVal(o)
		}
	}
	return nil
}

var loopNameRe = regexp.MustCompile(`^(it|ri)[0-9]+$`)

// fnHasLocal reports whether the source of fn declares a local variable called name.
func fnHasLocal(fn *ssa.Function, name string) bool {
	for _, b := range fn.Blocks {
		for _, in := range b.Instrs {
			if d, ok := in.(*ssa.DebugRef); ok {
				if o := d.Object(); o != nil && o.Name() == name {
					return true
				}
			}
		}
	}
	return false
}

func (ev *cenv) objVal(o types.Object) *Val {
	switch x := o.(type) {
	case *types.Const:
		switch x.Val().Kind() {
		case constant.Int:
			n, _ := new(big.Int).SetString(x.Val().ExactString(), 10)
			return &Val{T: tMath, S: bigLit(n), Sort: SInt}
		case constant.Bool:
			if constant.BoolVal(x.Val()) {
				return boolVal("true")
			}
			return boolVal("false")
		case constant.String:
			return &Val{T: tString, S: ev.E.strLit(constant.StringVal(x.Val())), Sort: SStr}
		}
	case *types.Var:
		return ev.E.globalVal(x.Pkg().Path()+"."+x.Name(), x.Type())
	}
	return nil
}

func (ev *cenv) eval(e *CExpr) *Val {
	E := ev.E
	switch e.Op {
	case "int":
		return &Val{T: tMath, S: bigLit(e.Int), Sort: SInt}
	case "str":
		return &Val{T: tString, S: E.strLit(e.Str), Sort: SStr}
	case "ident":
		if e.Name == "result" {
			if v, ok := ev.vars["result"]; ok {
				return v
			}
			ev.fail("result not available here")
		}
		v := ev.lookupIdent(e.Name)
		if v == nil && ev.st != nil {
			if bx := ev.lookupIdent("&box:" + e.Name); bx != nil && bx.LV != nil {
				return ev.loadLV(bx.LV)
			}
		}
		if v == nil && loopNameRe.MatchString(e.Name) {
			// range index / count of a loop that was not entered on this path
			return missingVal()
		}
		if v == nil && ev.fc != nil && ev.fc.fn != nil && fnHasLocal(ev.fc.fn, e.Name) {
			// a local of this function that is not defined on this path (yet)
			return missingVal()
		}
		if v == nil {
			ev.fail("unknown identifier %q", e.Name)
		}
		if v.AutoDeref {
			// captured variable of a closure: its current content
			nv := *v
			nv.AutoDeref = false
			return ev.loadLV(E.ptrLV(&nv))
		}
		if v.LV != nil && v.LV.Kind == lvLocal && v.S == "" && ev.st != nil {
			// address-taken local referenced by name: use its content
			if strings.HasPrefix(e.Name, "&") {
				return v
			}
		}
		return v
	case "unary":
		switch e.Name {
		case "!":
			return boolVal(not(ev.evalBool(e.Args[0])))
		case "-":
			x := ev.eval(e.Args[0])
			return &Val{T: tMath, S: sx("-", x.S), Sort: SInt}
		case "*":
			p := ev.eval(e.Args[0])
			if isMissing(p) {
				return p
			}
			return ev.loadLV(E.ptrLV(p))
		case "&":
			lv := ev.evalLV(e.Args[0])
			if lv.Kind == lvHeap && len(lv.Path) == 0 {
				return &Val{T: types.NewPointer(lv.Root), S: lv.Ref, Sort: SInt}
			}
			return &Val{T: types.NewPointer(E.lvType(lv)), LV: lv}
		}
	case "binary":
		return ev.binary(e)
	case "forall", "exists":
		return ev.quant(e)
	case "sel":
		return ev.sel(e)
	case "index":
		return ev.index(e)
	case "slice":
		return ev.sliceExpr(e)
	case "call":
		return ev.call(e)
	}
	ev.fail("cannot evaluate %s", e.String())
	return nil
}

func (ev *cenv) loadLV(lv *LVal) *Val {
	return ev.E.load(ev.st, ev.heap, lv)
}

func isNilVal(v *Val) bool { return v.T == nilType }

func (ev *cenv) eqVals(x, y *Val) string {
	E := ev.E
	if isMissing(x) || isMissing(y) {
		return ev.unknownBool().S
	}
	if isNilVal(x) && !isNilVal(y) {
		x, y = y, x
	}
	if isNilVal(y) {
		if x.F != nil {
			return eq(x.F[0].S, "0")
		}
		if x.S == "" {
			return "false"
		}
		return eq(x.S, "0")
	}
	if x.F != nil || y.F != nil {
		if x.F == nil || y.F == nil || len(x.F) != len(y.F) {
			ev.fail("comparison of different shapes")
		}
		sh := E.shape(x.T)
		if sh.Kind == "slice" {
			// contract-level slice equality: same header
			return and(eq(x.F[0].S, y.F[0].S), eq(x.F[1].S, y.F[1].S), eq(x.F[2].S, y.F[2].S), eq(x.F[3].S, y.F[3].S))
		}
		var cs []string
		for i := range x.F {
			cs = append(cs, ev.eqVals(x.F[i], y.F[i]))
		}
		return and(cs...)
	}
	if x.Sort == SStr {
		return sx(fSeq, x.S, y.S)
	}
	if x.Sort != y.Sort {
		ev.fail("comparison of sorts %s and %s", x.Sort, y.Sort)
	}
	if x.T != nil && y.T != nil {
		if ex, ey := chanElem(x.T), chanElem(y.T); ex != nil && ey != nil && !types.Identical(ex, ey) {
			// channels of different element types are different objects (or both nil)
			return and(eq(x.S, "0"), eq(y.S, "0"))
		}
	}
	return eq(x.S, y.S)
}

func (ev *cenv) binary(e *CExpr) *Val {
	switch e.Name {
	case "&&":
		l := ev.evalBool(e.Args[0])
		if l == "false" {
			return boolVal("false")
		}
		return boolVal(and(l, ev.evalBool(e.Args[1])))
	case "||":
		l := ev.evalBool(e.Args[0])
		if l == "true" {
			return boolVal("true")
		}
		return boolVal(or(l, ev.evalBool(e.Args[1])))
	case "==>":
		l := ev.evalBool(e.Args[0])
		if l == "false" || foldBool(l) == "false" {
			// constant-false antecedent (e.g. `calls(L) >= 2` on a path with one call): the
			// consequent may speak about events that do not exist on this path
			return boolVal("true")
		}
		return boolVal(implies(l, ev.evalBool(e.Args[1])))
	case "<==>":
		return boolVal(eq(ev.evalBool(e.Args[0]), ev.evalBool(e.Args[1])))
	case "in":
		k := ev.eval(e.Args[0])
		// `k in atlock(m)` / `k in old(m)`: membership in the map AS IT WAS in that state (the key
		// is evaluated now): rewrite to wrapper(k' in m) with k' bound to the key's value.
		if r := e.Args[1]; r.Op == "call" && len(r.Args) == 2 && r.Args[0].Op == "ident" {
			switch r.Args[0].Name {
			case "atlock", "atunlock", "old":
				name := fmt.Sprintf("$in%d", len(ev.bound))
				nb := map[string]*Val{}
				for a, b := range ev.bound {
					nb[a] = b
				}
				nb[name] = k
				sub := *ev
				sub.bound = nb
				inner := &CExpr{Op: "binary", Name: "in", Args: []*CExpr{{Op: "ident", Name: name}, r.Args[1]}}
				return sub.eval(&CExpr{Op: "call", Args: []*CExpr{r.Args[0], inner}})
			}
		}
		m := ev.eval(e.Args[1])
		if isMissing(m) || isMissing(k) {
			return ev.unknownBool()
		}
		return boolVal(ev.E.mapHas(ev.heap, m, k))
	}
	x, y := ev.eval(e.Args[0]), ev.eval(e.Args[1])
	if isMissing(x) || isMissing(y) {
		switch e.Name {
		case "==", "!=", "<", "<=", ">", ">=":
			return ev.unknownBool()
		}
		return missingVal()
	}
	switch e.Name {
	case "==":
		return boolVal(ev.eqVals(x, y))
	case "!=":
		return boolVal(not(ev.eqVals(x, y)))
	}
	if x.Sort == SBool && y.Sort == SBool {
		ev.fail("boolean operands to %s", e.Name)
	}
	if x.Sort == SStr && e.Name == "+" {
		return &Val{T: tString, S: sx(fConcat, x.S, y.S), Sort: SStr}
	}
	if x.Sort != SInt || y.Sort != SInt || x.S == "" || y.S == "" {
		ev.fail("integer operands expected in %s", e.String())
	}
	switch e.Name {
	case "<", "<=", ">", ">=":
		return boolVal(sx(e.Name, x.S, y.S))
	case "+":
		return intVal(add(x.S, y.S))
	case "-":
		return intVal(sub(x.S, y.S))
	case "*":
		return intVal(sx("*", x.S, y.S))
	case "/":
		return intVal(sx("div", x.S, y.S))
	case "%":
		return intVal(sx("mod", x.S, y.S))
	case "<<":
		if c, ok := isConstTerm(y.S); ok {
			return intVal(sx("*", x.S, pow2(uint(c.Int64())).String()))
		}
	case ">>":
		if c, ok := isConstTerm(y.S); ok {
			return intVal(sx("div", x.S, pow2(uint(c.Int64())).String()))
		}
	case "&":
		if c, ok := isConstTerm(y.S); ok {
			// x & (2^k - 1) or single bits
			if new(big.Int).And(c, new(big.Int).Add(c, big.NewInt(1))).Sign() == 0 {
				return intVal(sx("mod", x.S, new(big.Int).Add(c, big.NewInt(1)).String()))
			}
			var terms []string
			for k := 0; k < c.BitLen(); k++ {
				if c.Bit(k) == 1 {
					terms = append(terms, sx("*", pow2(uint(k)).String(), sx("mod", sx("div", x.S, pow2(uint(k)).String()), "2")))
				}
			}
			if len(terms) == 1 {
				return intVal(terms[0])
			}
			return intVal(sx("+", terms...))
		}
	}
	ev.fail("unsupported operator in %s", e.String())
	return nil
}

func (ev *cenv) quant(e *CExpr) *Val {
	E := ev.E
	// bounded variables (`s range 3`) are expanded: conjunction / disjunction over 0..n-1
	for vi, qv := range e.Vars {
		if qv.Type != nil && qv.Type.Kind == "range" {
			n := 0
			fmt.Sscanf(qv.Type.Name, "%d", &n)
			if n <= 0 || n > 16 {
				ev.fail("range bound must be 1..16")
			}
			rest := append(append([]QVar{}, e.Vars[:vi]...), e.Vars[vi+1:]...)
			var parts []string
			for c := 0; c < n; c++ {
				sub := *ev
				sub.bound = map[string]*Val{}
				for k, v := range ev.bound {
					sub.bound[k] = v
				}
				sub.bound[qv.Name] = &Val{T: tMath, S: intLit(int64(c)), Sort: SInt}
				var r string
				if len(rest) == 0 {
					r = sub.evalBool(e.Args[0])
				} else {
					r = sub.quant(&CExpr{Op: e.Op, Vars: rest, Pats: e.Pats, Args: e.Args}).S
				}
				parts = append(parts, r)
			}
			if e.Op == "forall" {
				return boolVal(and(parts...))
			}
			return boolVal(or(parts...))
		}
	}
	nb := map[string]*Val{}
	for k, v := range ev.bound {
		nb[k] = v
	}
	var binders []string
	var guards []string
	for _, qv := range e.Vars {
		T := E.resolveCType(ev.ctx, qv.Type)
		sh := E.shape(T)
		if sh.Scalar {
			n := E.freshName("q:" + qv.Name)
			binders = append(binders, fmt.Sprintf("(%s %s)", n, sh.Sort))
			nb[qv.Name] = &Val{T: T, S: n, Sort: sh.Sort}
			guards = append(guards, E.wfScalar(T, n)...)
		} else {
			var ls []leafInfo
			E.leafPaths(T, "", &ls)
			var scal []string
			for _, l := range ls {
				n := E.freshName("q:" + qv.Name)
				binders = append(binders, fmt.Sprintf("(%s %s)", n, l.Sort))
				scal = append(scal, n)
			}
			i := 0
			v := E.build(T, scal, &i)
			nb[qv.Name] = v
			guards = append(guards, E.wfAgg(T, sh, v)...)
		}
	}
	sub := *ev
	sub.bound = nb
	body := sub.evalBool(e.Args[0])
	g := and(guards...)
	// Ground pre-instantiation for byte-level layouts: a universally quantified fact
	// over byte/string positions is conjoined with its instances at positions 0..6
	// (logically redundant, but it puts the ground terms sat(s,c) / b[c] on the
	// table, which makes proofs about fixed header layouts independent of MBQI).
	var ground []string
	if e.Op == "forall" && len(binders) == 1 && strings.HasSuffix(binders[0], " Int)") && len(e.Pats) == 0 &&
		(strings.Contains(body, fSat) || strings.Contains(body, "elems<byte>") || strings.Contains(body, "elems<uint8>")) && len(body) < 4000 {
		name := binders[0][1:strings.LastIndex(binders[0], " ")]
		for c := 0; c <= 6; c++ {
			inst := implies(strings.ReplaceAll(g, name, intLit(int64(c))), strings.ReplaceAll(body, name, intLit(int64(c))))
			ground = append(ground, inst)
		}
	}
	var witAlts []string
	if e.Op == "exists" && ev.goal && len(binders) == 1 && strings.HasSuffix(binders[0], " Int)") && len(body) < 6000 {
		// witness candidates: W(t) ==> exists k. W(k), so the disjunction is equivalent;
		// it spares the solver from having to find a trigger for the witness.
		name := binders[0][1:strings.LastIndex(binders[0], " ")]
		for _, t := range ev.witnessCandidates() {
			witAlts = append(witAlts, and(strings.ReplaceAll(g, name, t), strings.ReplaceAll(body, name, t)))
		}
	}
	// Change of variables k -> j = OFF + k for element reads s[k] of a slice with a
	// symbolic window offset: the reads become (select (select A ref) j), which
	// gives arithmetic-free triggers.
	shifted := false
	if len(e.Pats) == 0 {
		for bi, b := range binders {
			name := b[1:strings.LastIndex(b, " ")]
			if !strings.HasSuffix(b, " Int)") {
				continue
			}
			off := shiftOffset(body, name)
			if off == "" {
				continue
			}
			j := E.freshName("j")
			rep := func(t string) string {
				t = strings.ReplaceAll(t, "(+ "+off+" "+name+")", j)
				return strings.ReplaceAll(t, name, "(- "+j+" "+off+")")
			}
			body, g = rep(body), rep(g)
			binders[bi] = fmt.Sprintf("(%s Int)", j)
			shifted = true
		}
	}
	if e.Op == "forall" {
		inner := implies(g, body)
		if len(e.Pats) > 0 {
			var ps []string
			for _, grp := range e.Pats {
				var ts []string
				for _, pe := range grp {
					pv := sub.eval(pe)
					for _, l := range leaves(pv) {
						ts = append(ts, l.S)
					}
				}
				ps = append(ps, ":pattern ("+strings.Join(ts, " ")+")")
			}
			inner = "(! " + inner + " " + strings.Join(ps, " ") + ")"
		} else {
			var bn []string
			for _, b := range binders {
				bn = append(bn, b[1:strings.LastIndex(b, " ")])
			}
			// only where the solver's own inference is known to go wrong: element reads
			// through at(off, k) (it tends to pick terms with interpreted arithmetic)
			if ap := autoPatterns(inner, bn); ap != "" && shifted {
				inner = "(! " + inner + " " + ap + ")"
			}
		}
		q := fmt.Sprintf("(forall (%s) %s)", strings.Join(binders, " "), inner)
		if len(ground) > 0 {
			q = and(append([]string{q}, ground...)...)
		}
		return boolVal(q)
	}
	ex := fmt.Sprintf("(exists (%s) %s)", strings.Join(binders, " "), and(g, body))
	if len(witAlts) > 0 {
		return boolVal(or(append([]string{ex}, witAlts...)...))
	}
	return boolVal(ex)
}

func (ev *cenv) fieldByName(v *Val, name string) (*Val, int, bool) {
	sh := ev.E.shape(v.T)
	for i, f := range sh.Fields {
		if f.Name == name {
			if v.F != nil {
				return v.F[i], i, true
			}
			return nil, i, true
		}
	}
	// promoted fields through embedded structs
	for i, f := range sh.Fields {
		if st, ok := types.Unalias(f.T).Underlying().(*types.Struct); ok && v.F != nil {
			_ = st
			if fv, _, ok := ev.fieldByName(v.F[i], name); ok {
				return fv, -1, true
			}
		}
	}
	return nil, -1, false
}

func (ev *cenv) sel(e *CExpr) *Val {
	E := ev.E
	// package-qualified name?
	if e.Args[0].Op == "ident" {
		if _, isVar := ev.bound[e.Args[0].Name]; !isVar && ev.lookupIdent(e.Args[0].Name) == nil && ev.lookupIdent("&box:"+e.Args[0].Name) == nil && !(ev.fc != nil && ev.fc.fn != nil && fnHasLocal(ev.fc.fn, e.Args[0].Name)) {
			path := e.Args[0].Name
			if ev.ctx != nil {
				if p, ok := ev.ctx.Imports[path]; ok {
					path = p
				}
			}
			if o := E.lookupObj(path, e.Name); o != nil {
				if v := ev.objVal(o); v != nil {
					return v
				}
			}
			for pp, p := range E.AllPkgs {
				if p.Name() == e.Args[0].Name || pp == e.Args[0].Name {
					if o := p.Scope().Lookup(e.Name); o != nil {
						if v := ev.objVal(o); v != nil {
							return v
						}
					}
				}
			}
			ev.fail("unknown qualified name %s", e.String())
		}
	}
	base := ev.eval(e.Args[0])
	if isMissing(base) {
		return base
	}
	if base.F == nil {
		// pointer: auto-deref
		if _, ok := types.Unalias(base.T).Underlying().(*types.Pointer); ok {
			lv := E.ptrLV(base)
			T := E.lvType(lv)
			sh := E.shape(T)
			if idx, path, ok := findField(E, T, e.Name); ok {
				_ = idx
				n := &LVal{Kind: lv.Kind, Cell: lv.Cell, Ref: lv.Ref, Idx: lv.Idx, Root: lv.Root, Global: lv.Global, VarCell: lv.VarCell}
				n.Path = append(append([]pathStep{}, lv.Path...), path...)
				if at, isArr := types.Unalias(E.lvType(n)).Underlying().(*types.Array); isArr && at.Len() > 16 {
					// large inline array: a location, indexable in contracts
					return &Val{T: E.lvType(n), LV: n}
				}
				r := ev.loadLV(n)
				return r
			}
			_ = sh
			// ghost field of the type
			if g, ok := ev.ghostField(T, base, e.Name); ok {
				return g
			}
			ev.fail("no field %s in %s", e.Name, typeKey(T))
		}
		ev.fail("selector on scalar %s", e.String())
	}
	sh := E.shape(base.T)
	if sh.Kind == "tuple" || sh.Kind == "array" {
		var i int
		if _, err := fmt.Sscanf(e.Name, "%d", &i); err == nil && i < len(base.F) {
			return base.F[i]
		}
	}
	if sh.Kind == "slice" {
		switch e.Name {
		case "ref":
			return base.F[0]
		case "off":
			return base.F[1]
		}
	}
	if sh.Kind == "iface" {
		switch e.Name {
		case "tag":
			return base.F[0]
		case "val":
			return base.F[1]
		}
	}
	if fv, _, ok := ev.fieldByName(base, e.Name); ok && fv != nil {
		return fv
	}
	ev.fail("no field %s in value of type %s", e.Name, typeKey(base.T))
	return nil
}

// findField finds a (possibly promoted) field and returns the path to it.
func findField(E *Engine, T types.Type, name string) (int, []pathStep, bool) {
	sh := E.shape(T)
	for i, f := range sh.Fields {
		if f.Name == name {
			return i, []pathStep{{Field: i}}, true
		}
	}
	if st, ok := types.Unalias(T).Underlying().(*types.Struct); ok && sh.Kind == "struct" {
		for i := 0; i < st.NumFields(); i++ {
			if st.Field(i).Embedded() {
				ft := st.Field(i).Type()
				if p, ok := ft.Underlying().(*types.Pointer); ok {
					_ = p
					continue
				}
				if _, sub, ok := findField(E, ft, name); ok {
					return i, append([]pathStep{{Field: i}}, sub...), true
				}
			}
		}
	}
	return -1, nil, false
}

// ghostField: ghost state attached to objects of a type, a location like any other
// (component family "ghost:<T>.<name>").
func (ev *cenv) ghostField(T types.Type, base *Val, name string) (*Val, bool) {
	lv := ev.E.ghostFieldLV(T, base.S, name)
	if lv == nil {
		return nil, false
	}
	return ev.loadLV(lv), true
}

func (E *Engine) ghostFieldLV(T types.Type, ref string, name string) *LVal {
	k := namedKey(T)
	ts, ok := E.CS.Types[k]
	if !ok {
		return nil
	}
	for _, g := range ts.Ghost {
		if g.Name == name {
			gk := k + "." + name
			GT := E.ghostTypes[gk]
			if GT == nil {
				gt := E.resolveCType(ts.Ctx, g.Type)
				if !E.shape(gt).Scalar {
					panic(engineErr("ghost field " + name + " must be scalar"))
				}
				GT = types.NewNamed(types.NewTypeName(0, nil, "ghost:"+gk, nil), gt, nil)
				E.ghostTypes[gk] = GT
			}
			return &LVal{Kind: lvHeap, Ref: ref, Root: GT}
		}
	}
	return nil
}

func (ev *cenv) index(e *CExpr) *Val {
	E := ev.E
	base := ev.eval(e.Args[0])
	idx := ev.eval(e.Args[1])
	if isMissing(base) || isMissing(idx) {
		return missingVal()
	}
	switch t := types.Unalias(base.T).Underlying().(type) {
	case *types.Slice:
		lv := &LVal{Kind: lvElem, Ref: base.F[0].S, Idx: E.at(base.F[1].S, idx.S), Root: t.Elem()}
		return ev.loadLV(lv)
	case *types.Basic:
		if base.Sort == SStr {
			return &Val{T: types.Typ[types.Uint8], S: sx(fSat, base.S, idx.S), Sort: SInt}
		}
	case *types.Array:
		if base.F == nil && base.LV != nil && t.Len() > 16 {
			ref := E.arrayElemRef(base.LV, idx.S)
			return ev.loadLV(&LVal{Kind: lvHeap, Ref: ref, Root: t.Elem()})
		}
		if base.F != nil {
			step := pathStep{IsArr: true}
			if c, ok := isConstTerm(idx.S); ok {
				step.Field = int(c.Int64())
			} else {
				step.Sym = idx.S
			}
			return E.project(base, base.T, []pathStep{step})
		}
	case *types.Map:
		return E.mapGet(ev.heap, base, idx)
	case *types.Pointer:
		if arr, ok := t.Elem().Underlying().(*types.Array); ok {
			_ = arr
			lv := E.ptrLV(base)
			step := pathStep{IsArr: true}
			if c, ok := isConstTerm(idx.S); ok {
				step.Field = int(c.Int64())
			} else {
				step.Sym = idx.S
			}
			n := &LVal{Kind: lv.Kind, Cell: lv.Cell, Ref: lv.Ref, Idx: lv.Idx, Root: lv.Root}
			n.Path = append(append([]pathStep{}, lv.Path...), step)
			return ev.loadLV(n)
		}
	}
	ev.fail("cannot index %s", e.String())
	return nil
}

func (ev *cenv) sliceExpr(e *CExpr) *Val {
	E := ev.E
	base := ev.eval(e.Args[0])
	lo := "0"
	if e.Args[1] != nil {
		lo = ev.eval(e.Args[1]).S
	}
	if base.Sort == SStr {
		hi := sx(fSlen, base.S)
		if e.Args[2] != nil {
			hi = ev.eval(e.Args[2]).S
		}
		E.needSubstr()
		return &Val{T: tString, S: sx(fSubstr, base.S, lo, hi), Sort: SStr}
	}
	if base.F != nil && len(base.F) == 4 {
		hi := base.F[2].S
		if e.Args[2] != nil {
			hi = ev.eval(e.Args[2]).S
		}
		return &Val{T: base.T, F: []*Val{base.F[0], intVal(add(base.F[1].S, lo)), intVal(sub(hi, lo)), intVal(sub(base.F[3].S, lo))}}
	}
	ev.fail("cannot slice %s", e.String())
	return nil
}

var convTypes = map[string]types.Type{
	"int": types.Typ[types.Int], "int8": types.Typ[types.Int8], "int16": types.Typ[types.Int16], "int32": types.Typ[types.Int32], "int64": types.Typ[types.Int64],
	"uint": types.Typ[types.Uint], "uint8": types.Typ[types.Uint8], "byte": types.Typ[types.Uint8], "uint16": types.Typ[types.Uint16], "uint32": types.Typ[types.Uint32], "uint64": types.Typ[types.Uint64],
}

func (ev *cenv) call(e *CExpr) *Val {
	E := ev.E
	fn := e.Args[0]
	args := e.Args[1:]
	if fn.Op == "ident" {
		switch fn.Name {
		case "old":
			sub := *ev
			if ev.oldHeap == nil {
				ev.fail("old() not available here")
			}
			sub.heap = ev.oldHeap
			sub.vars = map[string]*Val{}
			for k, v := range ev.vars {
				sub.vars[k] = v
			}
			for k, v := range ev.oldVars {
				sub.vars[k] = v
			}
			sub.loopMode = false
			sub.entryNames = true
			return sub.eval(args[0])
		case "len":
			x := ev.eval(args[0])
			if isMissing(x) {
				return x
			}
			if x.Sort == SStr {
				return intVal(sx(fSlen, x.S))
			}
			if x.F != nil && len(x.F) == 4 {
				return x.F[2]
			}
			if _, ok := types.Unalias(x.T).Underlying().(*types.Map); ok {
				if ev.st != nil && len(ev.bound) == 0 {
					ev.st.assume(E.cardEmptyFact(ev.heap, x), sx(">=", E.mapCardH(ev.heap, x), "0"))
				}
				return intVal(E.mapCardH(ev.heap, x))
			}
			ev.fail("len of %s", args[0].String())
		case "cap":
			x := ev.eval(args[0])
			if isMissing(x) {
				return x
			}
			if x.F != nil && len(x.F) == 4 {
				return x.F[3]
			}
			if x.T != nil && chanElem(x.T) != nil {
				return intVal(E.chanCap(x))
			}
			ev.fail("cap of %s", args[0].String())
		case "card":
			x := ev.eval(args[0])
			return intVal(E.mapCardH(ev.heap, x))
		case "fresh":
			x := ev.eval(args[0])
			p := x.S
			if x.F != nil {
				p = x.F[0].S
				if x.T != nil && types.IsInterface(x.T) && len(x.F) == 2 {
					p = x.F[1].S // (tag, val): the dynamic value is the pointer
				}
			}
			if ev.oldAlloc == "" {
				ev.fail("fresh() not available here")
			}
			return boolVal(and(not(eq(p, "0")), not(sx("select", ev.oldAlloc, p)), sx("select", ev.alloc(), p)))
		case "allocated":
			x := ev.eval(args[0])
			p := x.S
			if x.F != nil {
				p = x.F[0].S
				if x.T != nil && types.IsInterface(x.T) && len(x.F) == 2 {
					p = x.F[1].S // (tag, val): the dynamic value is the pointer
				}
			}
			return boolVal(sx("select", ev.alloc(), p))
		case "wasallocated":
			x := ev.eval(args[0])
			p := x.S
			if x.F != nil {
				p = x.F[0].S
				if x.T != nil && types.IsInterface(x.T) && len(x.F) == 2 {
					p = x.F[1].S // (tag, val): the dynamic value is the pointer
				}
			}
			return boolVal(sx("select", ev.oldAlloc, p))
		case "ite":
			c := ev.evalBool(args[0])
			a, b := ev.eval(args[1]), ev.eval(args[2])
			if isMissing(a) || isMissing(b) {
				return missingVal()
			}
			if isNilVal(a) && !isNilVal(b) {
				a = E.zeroVal(b.T)
			} else if isNilVal(b) && !isNilVal(a) {
				b = E.zeroVal(a.T)
			}
			return E.iteVal(c, a, b)
		case "private":
			// private(x): the object x points to was allocated by this function and its address
			// has not been written to memory or handed to other code (decided syntactically, priv.go)
			x := ev.eval(args[0])
			if isMissing(x) || ev.st == nil {
				return boolVal("false")
			}
			t := x.S
			if x.F != nil {
				t = x.F[0].S
			}
			if E.isPrivate(ev.st, t) {
				return boolVal("true")
			}
			return boolVal("false")
		case "implements":
			// implements(x, I): the dynamic type of interface value x implements interface type I
			x := ev.eval(args[0])
			T := ev.typeFromExpr(args[1])
			E.declare("|implements|", "(Int Int) Bool")
			return boolVal(sx("|implements|", x.F[0].S, intLit(int64(E.typeID(T)))))
		case "istype":
			x := ev.eval(args[0])
			T := ev.typeFromExpr(args[1])
			return boolVal(eq(x.F[0].S, intLit(int64(E.typeID(T)))))
		case "calls":
			return intVal(intLit(int64(len(ev.events(args[0])))))
		case "arg":
			evs := ev.events(args[0])
			k, i := ev.constInt(args[1]), ev.constInt(args[2])
			if k >= len(evs) || i >= len(evs[k].Args) {
				return missingVal()
			}
			return evs[k].Args[i]
		case "ret":
			evs := ev.events(args[0])
			k := ev.constInt(args[1])
			if k >= len(evs) || evs[k].Res == nil {
				return missingVal()
			}
			if len(args) == 3 {
				return evs[k].Res.F[ev.constInt(args[2])]
			}
			return evs[k].Res
		case "visited":
			// visited(L, k): key k was already yielded by the map range of loop L
			l := ev.constInt(args[0])
			k := ev.eval(args[1])
			if ev.st == nil {
				ev.fail("visited() needs a state")
			}
			id := ev.st.ghost["loopiter:"+fmt.Sprint(l)]
			if id == "" {
				// the loop has not been entered yet on this path: nothing visited
				return boolVal("false")
			}
			it := E.iters[id]
			return boolVal(sx("select", E.ghostVisited(ev.st, id, it), k.S))
		case "atlock":
			// the state right after the most recent lock acquisition on this path
			if ev.st == nil || ev.st.ghost["lastsnap"] == "" {
				ev.fail("atlock(): no lock was acquired on this path")
			}
			var n int
			fmt.Sscanf(ev.st.ghost["lastsnap"], "%d", &n)
			sub := *ev
			sub.heap = E.snaps[n]
			return sub.eval(args[0])
		case "isfunc":
			// isfunc(x, pkg.Name): the function value x is exactly the named top-level function
			x := ev.eval(args[0])
			if isMissing(x) {
				return ev.unknownBool()
			}
			want := args[1].String()
			if x.Fn != nil && (x.Fn.Key == want || strings.HasSuffix(x.Fn.Key, "/"+want) || shortKey(x.Fn.Key) == want) {
				return boolVal("true")
			}
			return boolVal("false")
		case "athead":
			// athead(e): e evaluated with the locals and the heap as they were at the head of the
			// current iteration of the loop whose `each` clause is being checked
			if ev.st == nil || ev.st.headEnv == nil {
				ev.fail("athead() outside a loop body clause")
			}
			var lo int
			fmt.Sscanf(ev.st.ghost["curloop"], "%d", &lo)
			he, ok := ev.st.headEnv[lo]
			if !ok {
				ev.fail("athead(): no loop head snapshot")
			}
			sub := *ev
			nst := *ev.st
			nst.env = he
			if a, ok := ev.st.ghost[fmt.Sprintf("headalloc:%d", lo)]; ok {
				nst.alloc = a // allocated(x) inside athead: was x allocated at the head of this iteration
			}
			sub.st = &nst
			sub.heap = ev.st.headHeap[lo]
			sub.loopMode = true
			return sub.eval(args[0])
		case "atunlock":
			// the state right before the most recent lock release on this path
			if ev.st == nil || ev.st.ghost["lastunlock"] == "" {
				return missingVal()
			}
			var n int
			fmt.Sscanf(ev.st.ghost["lastunlock"], "%d", &n)
			sub := *ev
			sub.heap = E.snaps[n]
			return sub.eval(args[0])
		case "sameElems":
			// every element in the slice's window [off, off+cap) of its backing array is as in the pre-state
			x := ev.eval(args[0])
			if x.F == nil || len(x.F) != 4 || ev.oldHeap == nil {
				ev.fail("sameElems(slice) needs a slice and a pre-state")
			}
			et := types.Unalias(x.T).Underlying().(*types.Slice).Elem()
			var ls []leafInfo
			E.leafPaths(et, "", &ls)
			var cs []string
			for _, l := range ls {
				comp := compName(elemsRoot(et), l.Path)
				cur := E.heapArr(ev.heap, comp, l.Sort, true)
				old := E.heapArr(ev.oldHeap, comp, l.Sort, true)
				j := E.freshName("j")
				cs = append(cs, fmt.Sprintf("(forall ((%s Int)) (! (=> (and (<= %s %s) (< %s %s)) (= (select (select %s %s) %s) (select (select %s %s) %s))) :pattern ((select (select %s %s) %s))))",
					j, x.F[1].S, j, j, add(x.F[1].S, x.F[3].S), cur, x.F[0].S, j, old, x.F[0].S, j, cur, x.F[0].S, j))
			}
			return boolVal(and(cs...))
		case "ghost":
			return ev.loadLV(ev.ghostLV(args))
		case "cast":
			T := ev.typeFromExpr(args[0])
			x := ev.eval(args[1])
			if isMissing(x) {
				return x
			}
			return &Val{T: T, S: x.S, Sort: x.Sort}
		case "iter_calls", "iter_arg", "iter_ret", "iter_atcall", "iter_callpos":
			// the call log of the current loop iteration only
			start := 0
			if ev.st != nil && ev.st.loopLog != nil {
				var lo int
				fmt.Sscanf(ev.st.ghost["curloop"], "%d", &lo)
				start = ev.st.loopLog[lo]
			}
			label := args[0].String()
			var evs []CallEvent
			var poss []int
			if ev.st != nil {
				for pi, c := range ev.st.log {
					if pi >= start && (c.Label == label || strings.HasSuffix(c.Label, "."+label)) {
						evs = append(evs, c)
						poss = append(poss, pi)
					}
				}
			}
			switch fn.Name {
			case "iter_callpos":
				k := ev.constInt(args[1])
				if k >= len(poss) {
					return intVal("(- 1)")
				}
				return intVal(intLit(int64(poss[k])))
			case "iter_atcall":
				k := ev.constInt(args[1])
				if k >= len(evs) {
					return missingVal()
				}
				sub := *ev
				sub.heap = evs[k].Heap
				return sub.eval(args[2])
			case "iter_calls":
				return intVal(intLit(int64(len(evs))))
			case "iter_arg":
				k, i := ev.constInt(args[1]), ev.constInt(args[2])
				if k >= len(evs) || i >= len(evs[k].Args) {
					return missingVal()
				}
				return evs[k].Args[i]
			default:
				k := ev.constInt(args[1])
				if k >= len(evs) || evs[k].Res == nil {
					return missingVal()
				}
				if len(args) == 3 {
					return evs[k].Res.F[ev.constInt(args[2])]
				}
				return evs[k].Res
			}
		case "lastret":
			evs := ev.events(args[0])
			if len(evs) == 0 || evs[len(evs)-1].Res == nil {
				return missingVal()
			}
			if len(args) == 2 {
				return evs[len(evs)-1].Res.F[ev.constInt(args[1])]
			}
			return evs[len(evs)-1].Res
		case "lastarg":
			evs := ev.events(args[0])
			if len(evs) == 0 {
				return missingVal()
			}
			return evs[len(evs)-1].Args[ev.constInt(args[1])]
		case "lastpos":
			// position in the path's call log of the last event with this label (-1: none)
			label := args[0].String()
			pos := -1
			if ev.st != nil {
				for pi, c := range ev.st.log {
					if c.Label == label || strings.HasSuffix(c.Label, "."+label) {
						pos = pi
					}
				}
			}
			if pos < 0 {
				return intVal("(- 1)")
			}
			return intVal(intLit(int64(pos)))
		case "callpos":
			// position of the k-th call with this label in the path's call log (-1: no such call)
			label := args[0].String()
			k := ev.constInt(args[1])
			n := 0
			if ev.st != nil {
				for pi, c := range ev.st.log {
					if c.Label == label || strings.HasSuffix(c.Label, "."+label) {
						if n == k {
							return intVal(intLit(int64(pi)))
						}
						n++
					}
				}
			}
			return intVal("(- 1)")
		case "aftercall":
			evs := ev.events(args[0])
			k := ev.constInt(args[1])
			if k >= len(evs) {
				return missingVal()
			}
			sub := *ev
			sub.heap = evs[k].HeapAfter
			return sub.eval(args[2])
		case "atcall":
			// atcall(Label, k, expr): evaluate expr in the heap at the k-th call
			evs := ev.events(args[0])
			k := ev.constInt(args[1])
			if k >= len(evs) {
				return missingVal()
			}
			sub := *ev
			sub.heap = evs[k].Heap
			return sub.eval(args[2])
		case "atomicwas":
			// atomicwas(loc, v): the atomic variable at loc holds or has held the value v (timeless,
			// only ever asserted positively: by a Store/Swap of v, or by a Load that returned v;
			// the zero value counts as held from the start).
			lv := ev.evalLV(args[0])
			v := ev.eval(args[1])
			vs := v.S
			if v.Sort == SBool {
				vs = sx("ite", v.S, "1", "0")
			}
			E.declare("|atomic!was|", "(Int Int Int) Bool")
			pk := namedKey(lv.Root)
			for _, st := range lv.Path {
				pk += fmt.Sprintf(".%d", st.Field)
			}
			return boolVal(sx("|atomic!was|", lv.Ref, intLit(int64(E.typeID2(pk))), vs))
		case "held", "rheld", "closed", "chancap":
			return ev.concPred(fn.Name, args)
		case "string":
			x := ev.eval(args[0])
			if x.Sort == SStr {
				return x
			}
		}
		if T, ok := convTypes[fn.Name]; ok && len(args) == 1 {
			x := ev.eval(args[0])
			return &Val{T: T, S: wrapTo(T, x.S), Sort: SInt}
		}
		if sf, ok := E.CS.Specs[fn.Name]; ok {
			var vs []*Val
			for _, a := range args {
				vs = append(vs, ev.eval(a))
			}
			return ev.applySpecFunc(sf, vs)
		}
	}
	if fn.Op == "sel" && len(args) == 0 {
		// x.M() for a method with a `pure` interface contract (e.g. key.Sum())
		recv := ev.eval(fn.Args[0])
		for k, sp := range E.CS.Funcs {
			if sp.IsIface && sp.Pure && strings.HasSuffix(k, "."+fn.Name) {
				name := qsym("fn:" + k + "#0")
				var sorts, terms []string
				for _, l := range leaves(recv) {
					sorts = append(sorts, l.Sort)
					terms = append(terms, l.S)
				}
				E.declare(name, "("+strings.Join(sorts, " ")+") Int")
				return intVal(sx(name, terms...))
			}
		}
	}
	ev.fail("unknown function in contract: %s", e.String())
	return nil
}

func (ev *cenv) typeFromExpr(e *CExpr) types.Type {
	// *pkg.T or pkg.T
	switch e.Op {
	case "unary":
		if e.Name == "*" {
			return types.NewPointer(ev.typeFromExpr(e.Args[0]))
		}
	case "sel":
		if e.Args[0].Op == "ident" {
			return ev.E.resolveCType(ev.ctx, &CType{Kind: "named", Pkg: e.Args[0].Name, Name: e.Name})
		}
	case "ident":
		return ev.E.resolveCType(ev.ctx, &CType{Kind: "named", Name: e.Name})
	}
	ev.fail("bad type expression %s", e.String())
	return nil
}

func (ev *cenv) constInt(e *CExpr) int {
	v := ev.eval(e)
	c, ok := isConstTerm(v.S)
	if !ok {
		ev.fail("constant expected: %s", e.String())
	}
	return int(c.Int64())
}

func (ev *cenv) events(e *CExpr) []CallEvent {
	label := e.String()
	var out []CallEvent
	if ev.st == nil {
		return nil
	}
	for _, c := range ev.st.log {
		if c.Label == label || strings.HasSuffix(c.Label, "."+label) || strings.HasSuffix(c.Label, ")."+label) {
			out = append(out, c)
		}
	}
	return out
}

// applySpecFunc: inline a defined spec function, or apply an uninterpreted one.
func (ev *cenv) applySpecFunc(sf *SpecFunc, args []*Val) *Val {
	E := ev.E
	if len(args) != len(sf.Params) {
		ev.fail("spec func %s: wrong number of arguments", sf.Name)
	}
	if sf.Body != nil && E.isRecursiveSpec(sf) {
		return ev.applyRecursive(sf, args)
	}
	if sf.Body != nil {
		if ev.depth > 12 {
			ev.fail("spec func %s: recursion too deep", sf.Name)
		}
		sub := *ev
		sub.ctx = sf.Ctx
		sub.bound = map[string]*Val{}
		for i, p := range sf.Params {
			T := E.resolveCType(sf.Ctx, p.Type)
			a := args[i]
			if isNilVal(a) {
				a = E.zeroVal(T)
			}
			sub.bound[p.Name] = retypeIfMath(a, T)
		}
		sub.depth = ev.depth + 1
		sub.loopMode = false
		return sub.eval(sf.Body)
	}
	return ev.uninterpApp(sf, args)
}

// uninterpApp: the application as uninterpreted function symbol(s) over the argument leaves.
func (ev *cenv) uninterpApp(sf *SpecFunc, args []*Val) *Val {
	E := ev.E
	var sorts, terms []string
	for i, a := range args {
		T := E.resolveCType(sf.Ctx, sf.Params[i].Type)
		if isNilVal(a) {
			a = E.zeroVal(T)
		}
		for _, l := range leaves(a) {
			if l.S == "" {
				ev.fail("derived pointer passed to spec func %s", sf.Name)
			}
			sorts = append(sorts, l.Sort)
			terms = append(terms, l.S)
		}
	}
	RT := E.resolveCType(sf.Ctx, sf.Ret)
	var ls []leafInfo
	E.leafPaths(RT, "", &ls)
	var scal []string
	for i, l := range ls {
		name := qsym("spec:" + sf.Name)
		if len(ls) > 1 {
			name = qsym(fmt.Sprintf("spec:%s#%d", sf.Name, i))
		}
		E.declare(name, "("+strings.Join(sorts, " ")+") "+l.Sort)
		if len(terms) == 0 {
			scal = append(scal, name)
		} else {
			scal = append(scal, sx(name, terms...))
		}
	}
	i := 0
	return E.build(RT, scal, &i)
}

func retypeIfMath(v *Val, T types.Type) *Val {
	if v.T == nil || v.T == tMath {
		return retype(v, T)
	}
	return v
}

// evalLV evaluates an expression as a location.
func (ev *cenv) evalLV(e *CExpr) *LVal {
	E := ev.E
	switch e.Op {
	case "unary":
		if e.Name == "*" {
			return E.ptrLV(ev.eval(e.Args[0]))
		}
	case "sel":
		var baseLV *LVal
		bv := ev.tryEval(e.Args[0])
		if bv != nil && bv.F == nil {
			if _, ok := types.Unalias(bv.T).Underlying().(*types.Pointer); ok {
				baseLV = E.ptrLV(bv)
			}
		}
		if baseLV == nil {
			baseLV = ev.evalLV(e.Args[0])
		}
		T := E.lvType(baseLV)
		_, path, ok := findField(E, T, e.Name)
		if !ok {
			if len(baseLV.Path) == 0 && baseLV.Kind == lvHeap {
				if g := E.ghostFieldLV(T, baseLV.Ref, e.Name); g != nil {
					return g
				}
			}
			ev.fail("no field %s in %s", e.Name, typeKey(T))
		}
		n := &LVal{Kind: baseLV.Kind, Cell: baseLV.Cell, Ref: baseLV.Ref, Idx: baseLV.Idx, Root: baseLV.Root}
		n.Path = append(append([]pathStep{}, baseLV.Path...), path...)
		return n
	case "index":
		base := ev.eval(e.Args[0])
		idx := ev.eval(e.Args[1])
		if sl, ok := types.Unalias(base.T).Underlying().(*types.Slice); ok {
			return &LVal{Kind: lvElem, Ref: base.F[0].S, Idx: E.at(base.F[1].S, idx.S), Root: sl.Elem()}
		}
		if at, ok := types.Unalias(base.T).Underlying().(*types.Array); ok && base.F == nil && base.LV != nil {
			return &LVal{Kind: lvHeap, Ref: E.arrayElemRef(base.LV, idx.S), Root: at.Elem()}
		}
	case "ident":
		v := ev.lookupIdent("&" + e.Name)
		if v != nil && v.LV != nil {
			return v.LV
		}
	case "call":
		if e.Args[0].Op == "ident" && e.Args[0].Name == "ghost" {
			return ev.ghostLV(e.Args[1:])
		}
	}
	ev.fail("not a location: %s", e.String())
	return nil
}

// tryEvalBool evaluates a clause; ok=false if it mentions an identifier unknown in this scope.
func (ev *cenv) tryEvalBool(e *CExpr) (f string, ok bool) {
	defer func() {
		if r := recover(); r != nil {
			if ee, isEE := r.(engineErr); isEE && strings.Contains(string(ee), "unknown identifier") {
				f, ok = "", false
				return
			}
			panic(r)
		}
	}()
	return ev.evalBool(e), true
}

func (ev *cenv) tryEval(e *CExpr) (v *Val) {
	defer func() {
		if r := recover(); r != nil {
			if _, ok := r.(engineErr); ok {
				v = nil
				return
			}
			panic(r)
		}
	}()
	return ev.eval(e)
}

// ghost(name, key): ghost integer state keyed by an integer (object ref, interface value…).
func (ev *cenv) ghostLV(args []*CExpr) *LVal {
	if len(args) != 2 || args[0].Op != "ident" {
		ev.fail("ghost(name, key) expected")
	}
	name := args[0].Name
	T := ev.E.ghostTypes[name]
	if T == nil {
		T = types.NewNamed(types.NewTypeName(0, nil, "ghost:"+name, nil), types.Typ[types.UntypedInt], nil)
		ev.E.ghostTypes[name] = T
	}
	k := ev.eval(args[1])
	key := k.S
	if k.F != nil {
		key = k.F[len(k.F)-1].S
		if sh := ev.E.shape(k.T); sh.Kind == "slice" {
			key = k.F[0].S
		}
	}
	return &LVal{Kind: lvHeap, Ref: key, Root: T}
}

// usesCallLog: the clause talks about the function's own call log (internal
// postcondition: proved for the body, not exported to callers).
func usesCallLog(e *CExpr) bool {
	if e == nil {
		return false
	}
	if e.Op == "call" && e.Args[0].Op == "ident" {
		switch e.Args[0].Name {
		case "calls", "arg", "ret", "atcall", "aftercall", "callpos", "atlock", "atunlock", "visited", "lastret", "lastarg", "lastpos", "iter_calls", "iter_arg", "iter_ret", "iter_atcall", "iter_callpos":
			return true
		}
	}
	for _, a := range e.Args {
		if usesCallLog(a) {
			return true
		}
	}
	return false
}

// shiftOffset finds the most frequent OFF such that "(+ OFF v)" is the index of
// an element read in body (OFF not mentioning v).
func shiftOffset(body, v string) string {
	root := parseSexp(body)
	if root == nil {
		return ""
	}
	cnt := map[string]int{}
	var order []string
	var walk func(n *sexp)
	walk = func(n *sexp) {
		if n == nil || n.atom != "" {
			return
		}
		if n.head() == "select" && len(n.kids) == 3 {
			ix := n.kids[2]
			if ix.head() == "+" && len(ix.kids) == 3 && ix.kids[2].atom == v && !strings.Contains(ix.kids[1].text, v) {
				if cnt[ix.kids[1].text] == 0 {
					order = append(order, ix.kids[1].text)
				}
				cnt[ix.kids[1].text]++
			}
		}
		for _, k := range n.kids {
			walk(k)
		}
	}
	walk(root)
	best := ""
	for _, o := range order {
		if best == "" || cnt[o] > cnt[best] {
			best = o
		}
	}
	return best
}

// witnessCandidates: integer terms in scope that are plausible witnesses for an
// existential goal: integer locals (and their predecessors), slice lengths (and len-1).
func (ev *cenv) witnessCandidates() []string {
	if ev.st == nil {
		return nil
	}
	seen := map[string]bool{}
	var out []string
	addT := func(t string) {
		if t == "" || seen[t] || len(out) >= 16 {
			return
		}
		seen[t] = true
		out = append(out, t)
	}
	var names []string
	for n := range ev.st.env {
		names = append(names, n)
	}
	sort.Strings(names)
	for _, n := range names {
		v := ev.st.env[n]
		if v == nil {
			continue
		}
		if v.F == nil && v.Sort == SInt && v.S != "" {
			if _, _, ok := intRange(v.T); ok {
				addT(v.S)
				addT(sub(v.S, "1"))
			}
		}
		if v.F != nil && len(v.F) == 4 {
			if sh := ev.E.shape(v.T); sh.Kind == "slice" {
				addT(sub(v.F[2].S, "1"))
				addT(v.F[2].S)
			}
		}
	}
	return out
}

// Recursive spec functions (their body mentions themselves, directly or through other
// defined spec functions) are rendered as uninterpreted applications plus ONE level of
// definitional unfolding in the current heap, added as a fact to the state:
//     f(args) == body[f := uninterpreted]
// This is sound as long as the heap locations the body reads do not change between the
// states in which the same application is used; contracts using such functions declare
// those components `preserves` / immutable.
func (E *Engine) isRecursiveSpec(sf *SpecFunc) bool {
	if r, ok := E.recSpec[sf.Name]; ok {
		return r
	}
	// cut points of the definitional call graph: functions that call themselves directly.
	// Other defined functions are inlined (a cycle through no cut point hits the depth limit).
	var direct func(e *CExpr) bool
	direct = func(e *CExpr) bool {
		if e == nil {
			return false
		}
		if e.Op == "call" && e.Args[0].Op == "ident" && e.Args[0].Name == sf.Name {
			return true
		}
		for _, a := range e.Args {
			if direct(a) {
				return true
			}
		}
		return false
	}
	r := direct(sf.Body)
	E.recSpec[sf.Name] = r
	return r
}

func (ev *cenv) applyRecursive(sf *SpecFunc, args []*Val) *Val {
	E := ev.E
	app := ev.uninterpApp(sf, args)
	if ev.unfoldLvl >= 2 || ev.st == nil {
		return app
	}
	// no unfolding under binders
	for _, a := range args {
		for _, l := range leaves(a) {
			if strings.Contains(l.S, "|q:") || strings.Contains(l.S, "|j!") {
				return app
			}
		}
	}
	key := "unf:" + sf.Name
	for _, l := range leaves(app) {
		key += l.S
	}
	if ev.st.ghost[key] != "" {
		return app
	}
	ev.st.ghost[key] = "1"
	sub := *ev
	sub.ctx = sf.Ctx
	sub.bound = map[string]*Val{}
	for i, p := range sf.Params {
		T := E.resolveCType(sf.Ctx, p.Type)
		a := args[i]
		if isNilVal(a) {
			a = E.zeroVal(T)
		}
		sub.bound[p.Name] = retypeIfMath(a, T)
	}
	sub.unfoldLvl = ev.unfoldLvl + 1
	sub.loopMode = false
	sub.goal = false
	body := sub.eval(sf.Body)
	al, bl := leaves(app), leaves(body)
	if len(al) != len(bl) {
		ev.fail("recursive spec func %s: body shape differs from declared type", sf.Name)
	}
	for i := range al {
		ev.st.assume(eq(al[i].S, bl[i].S))
	}
	return app
}
