package gocv

import (
	"sort"
	"strings"
)

// Automatic trigger selection for quantifiers written without explicit {patterns}:
// arithmetic-free applications (heap reads, spec functions, string accessors)
// that mention bound variables. Terms covering all bound variables become
// alternative patterns; otherwise one multi-pattern is assembled.

type sexp struct {
	atom string
	kids []*sexp
	text string
}

func parseSexp(s string) *sexp {
	pos := 0
	var rec func() *sexp
	skip := func() {
		for pos < len(s) && (s[pos] == ' ' || s[pos] == '\n' || s[pos] == '\t') {
			pos++
		}
	}
	rec = func() *sexp {
		skip()
		if pos >= len(s) {
			return nil
		}
		st := pos
		if s[pos] == '(' {
			pos++
			n := &sexp{}
			for {
				skip()
				if pos >= len(s) {
					break
				}
				if s[pos] == ')' {
					pos++
					break
				}
				k := rec()
				if k == nil {
					break
				}
				n.kids = append(n.kids, k)
			}
			n.text = s[st:pos]
			return n
		}
		if s[pos] == '|' {
			pos++
			for pos < len(s) && s[pos] != '|' {
				pos++
			}
			pos++
		} else {
			for pos < len(s) && s[pos] != ' ' && s[pos] != '(' && s[pos] != ')' && s[pos] != '\n' {
				pos++
			}
		}
		return &sexp{atom: s[st:pos], text: s[st:pos]}
	}
	return rec()
}

var interpreted = map[string]bool{
	"+": true, "-": true, "*": true, "div": true, "mod": true, "abs": true, "<": true, "<=": true, ">": true, ">=": true,
	"=": true, "and": true, "or": true, "not": true, "=>": true, "ite": true, "forall": true, "exists": true, "!": true,
	"distinct": true, "store": true,
}

func (n *sexp) head() string {
	if n == nil || len(n.kids) == 0 {
		return ""
	}
	return n.kids[0].atom
}

// arithFree: no interpreted operator anywhere inside the term.
func (n *sexp) arithFree() bool {
	if n.atom != "" {
		return true
	}
	if h := n.head(); interpreted[h] && h != "" {
		return false
	}
	if n.head() == "" && len(n.kids) > 0 && n.kids[0].atom == "" {
		// ((as const ...) x) etc.
		return false
	}
	for _, k := range n.kids[1:] {
		if !k.arithFree() {
			return false
		}
	}
	return true
}

func (n *sexp) vars(bound map[string]bool, out map[string]bool) {
	if n.atom != "" {
		if bound[n.atom] {
			out[n.atom] = true
		}
		return
	}
	for _, k := range n.kids {
		k.vars(bound, out)
	}
}

func autoPatterns(body string, boundNames []string) string {
	root := parseSexp(body)
	if root == nil {
		return ""
	}
	bound := map[string]bool{}
	for _, b := range boundNames {
		bound[b] = true
	}
	type cand struct {
		text string
		vs   map[string]bool
		size int
	}
	seen := map[string]bool{}
	var cands []cand
	inner := map[string]bool{} // variables bound by nested quantifiers: unusable in our patterns
	var walk func(n *sexp, underQuant bool)
	walk = func(n *sexp, underQuant bool) {
		if n == nil || n.atom != "" {
			return
		}
		h := n.head()
		if h == "forall" || h == "exists" {
			// nested quantifier: terms mentioning its bound variables cannot be our triggers
			if len(n.kids) >= 3 {
				for _, b := range n.kids[1].kids {
					if len(b.kids) > 0 {
						inner[b.kids[0].atom] = true
					}
				}
				walk(n.kids[2], true)
			}
			return
		}
		if h != "" && !interpreted[h] && h != "select" || h == "select" {
			if n.arithFree() && !seen[n.text] {
				vs := map[string]bool{}
				n.vars(bound, vs)
				iv := map[string]bool{}
				n.vars(inner, iv)
				if len(vs) > 0 && len(iv) == 0 {
					// maximal terms preferred: skip if it is a bare (select A k) of a 2-D array? keep all
					seen[n.text] = true
					cands = append(cands, cand{n.text, vs, len(n.text)})
				}
			}
		}
		for _, k := range n.kids {
			walk(k, underQuant)
		}
	}
	walk(root, false)
	if len(cands) == 0 {
		return ""
	}
	// drop candidates that are strict subterms of another candidate with the same variable set
	var keep []cand
	for i, c := range cands {
		sub := false
		for j, d := range cands {
			if i != j && len(d.text) > len(c.text) && strings.Contains(d.text, c.text) && len(d.vs) >= len(c.vs) {
				// prefer the smaller term as trigger (more matches) unless it is a partial select
				if strings.HasPrefix(c.text, "(select |") && strings.HasPrefix(d.text, "(select (select") {
					sub = true // inner (select A ref) of a 2-D read is useless alone
				}
			}
		}
		if !sub {
			keep = append(keep, c)
		}
	}
	cands = keep
	sort.SliceStable(cands, func(i, j int) bool { return cands[i].size < cands[j].size })
	var full []string
	for _, c := range cands {
		if len(c.vs) == len(boundNames) {
			full = append(full, c.text)
		}
	}
	if len(full) > 0 {
		if len(full) > 6 {
			full = full[:6]
		}
		var ps []string
		for _, f := range full {
			ps = append(ps, ":pattern ("+f+")")
		}
		return strings.Join(ps, " ")
	}
	// multi-pattern: greedily cover all variables
	covered := map[string]bool{}
	var multi []string
	for _, c := range cands {
		adds := false
		for v := range c.vs {
			if !covered[v] {
				adds = true
			}
		}
		if adds {
			multi = append(multi, c.text)
			for v := range c.vs {
				covered[v] = true
			}
		}
		if len(covered) == len(boundNames) {
			break
		}
	}
	if len(covered) != len(boundNames) {
		return ""
	}
	return ":pattern (" + strings.Join(multi, " ") + ")"
}
