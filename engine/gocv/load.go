package gocv

import (
	"fmt"
	"go/types"
	"os"
	"path/filepath"
	"regexp"
	"sort"
	"strings"

	"golang.org/x/tools/go/packages"
	"golang.org/x/tools/go/ssa"
	"golang.org/x/tools/go/ssa/ssautil"
)

type Engine struct {
	RepoDir string
	SpecDir string
	Pkgs    []*packages.Package
	Prog    *ssa.Program
	AllPkgs map[string]*types.Package
	Funcs   map[string]*ssa.Function // canonical key -> function
	CS      *Contracts
	chanMsgs map[string]*ChanSpec
	pendingAtomic bool
	ScopeAll bool     // the property has a package scope: every clause of every verified function counts
	Quick    bool     // quick tier: clauses tagged [slow] are assumed, not re-proved
	Deferred []string // obligations left to the thorough tier
	lockRefs map[string]*lockRef

	ctr      int
	decls    map[string]string
	axioms   []axiom
	strLits  map[string]string
	typeIDs  map[string]int
	specDecl map[string]bool
	globals  map[string]*Val
	nonNilGlobals map[string]bool

	Obligs []*Oblig
	Notes  []string // unsupported constructs, havoc calls … (evidence)
	noteSet map[string]bool

	// current function context
	cur *fnCtx
	dry int
	dryLoops []*loopInfo
	noInline map[*ssa.Function]bool
	inlOK    map[*ssa.Function]bool
	inlOrd   map[*ssa.Function]map[ssa.Instruction]int
	fragStop ssa.Instruction
	fragAt   func(*State)
	fragment bool // fragment execution (fragment.go): undefined registers are arbitrary, only `captured` obligations count
	dryEsc   []map[string]bool // per dry-run loop: references that escaped in the body
	globalFacts []string
	iters map[string]*iterState
	snaps []map[string]string
	relSilence bool
	usedSpecs map[string]bool
	usedImmutable map[string]bool
	ghostTypes map[string]types.Type
	lastValueNames []string
	curInstr ssa.Instruction
	provingInv bool
	recSpec map[string]bool

	MaxPaths int
	Tier     string
}

type axiom struct {
	Name    string
	Body    string
	Trigger []string // symbols; axiom is included if any occurs in the query (empty: always)
}

var genericRe = regexp.MustCompile(`\[[^\[\]]*\]`)

func stripGenerics(s string) string {
	for {
		t := genericRe.ReplaceAllString(s, "")
		if t == s {
			return s
		}
		s = t
	}
}

func Load(repoDir, specDir string, patterns []string) (*Engine, error) {
	cfg := &packages.Config{
		Mode:       packages.LoadSyntax,
		Dir:        repoDir,
		BuildFlags: []string{"-tags=verif"},
		Env:        append(os.Environ(), "GOFLAGS=-mod=mod", "GOPROXY=off", "GOSUMDB=off", "GOTOOLCHAIN=local"),
	}
	pkgs, err := packages.Load(cfg, patterns...)
	if err != nil {
		return nil, err
	}
	var errs []string
	packages.Visit(pkgs, nil, func(p *packages.Package) {
		if strings.HasPrefix(p.PkgPath, "github.com/IrineSistiana/mosdns") {
			for _, e := range p.Errors {
				errs = append(errs, e.Error())
			}
		}
	})
	if len(errs) > 0 {
		return nil, fmt.Errorf("package errors: %s", strings.Join(errs, "; "))
	}
	prog, _ := ssautil.Packages(pkgs, ssa.GlobalDebug|ssa.InstantiateGenerics)
	prog.Build()
	E := &Engine{RepoDir: repoDir, SpecDir: specDir, Pkgs: pkgs, Prog: prog, AllPkgs: map[string]*types.Package{},
		Funcs: map[string]*ssa.Function{}, CS: NewContracts(), decls: map[string]string{}, strLits: map[string]string{},
		typeIDs: map[string]int{}, specDecl: map[string]bool{}, globals: map[string]*Val{}, noteSet: map[string]bool{},
		nonNilGlobals: map[string]bool{}, MaxPaths: 6000, iters: map[string]*iterState{}, usedSpecs: map[string]bool{}, usedImmutable: map[string]bool{}, ghostTypes: map[string]types.Type{}, recSpec: map[string]bool{}, noInline: map[*ssa.Function]bool{}, inlOK: map[*ssa.Function]bool{}, inlOrd: map[*ssa.Function]map[ssa.Instruction]int{}}
	E.initStringTheory()
	var addPkg func(tp *types.Package)
	addPkg = func(tp *types.Package) {
		if tp == nil {
			return
		}
		if _, ok := E.AllPkgs[tp.Path()]; ok {
			return
		}
		E.AllPkgs[tp.Path()] = tp
		for _, ip := range tp.Imports() {
			addPkg(ip)
		}
	}
	for _, p := range pkgs {
		addPkg(p.Types)
	}
	// `type A B` with B a struct type: A and B share one *types.Struct; their objects live in
	// the same heap components and share the contracts of B's type block. Canonical = the type
	// whose declaration directly precedes the struct's first field.
	structCanon = map[string]string{}
	for _, p := range pkgs {
		if !strings.HasPrefix(p.PkgPath, "github.com/IrineSistiana/mosdns") {
			continue
		}
		groups := map[*types.Struct][]*types.TypeName{}
		sc := p.Types.Scope()
		for _, n := range sc.Names() {
			tn, ok := sc.Lookup(n).(*types.TypeName)
			if !ok || tn.IsAlias() {
				continue
			}
			if s, ok := tn.Type().Underlying().(*types.Struct); ok && s.NumFields() > 0 {
				groups[s] = append(groups[s], tn)
			}
		}
		for s, tns := range groups {
			if len(tns) < 2 {
				continue
			}
			f0 := s.Field(0).Pos()
			var best *types.TypeName
			for _, tn := range tns {
				if tn.Pos() < f0 && (best == nil || tn.Pos() > best.Pos()) {
					best = tn
				}
			}
			if best == nil {
				continue
			}
			for _, tn := range tns {
				if tn != best {
					structCanon[tn.Pkg().Path()+"."+tn.Name()] = best.Pkg().Path() + "." + best.Name()
				}
			}
		}
	}
	for f := range ssautil.AllFunctions(prog) {
		if f.Synthetic != "" && !strings.Contains(f.Synthetic, "instance") {
			continue
		}
		if o := f.Origin(); o != nil && len(o.Blocks) > 0 {
			// verify the generic body (type parameters opaque), not one instantiation
			E.Funcs[stripGenerics(o.String())] = o
			continue
		}
		k := stripGenerics(f.String())
		if old, ok := E.Funcs[k]; ok {
			// prefer the generic origin (no type args)
			if len(old.TypeArgs()) == 0 {
				continue
			}
		}
		E.Funcs[k] = f
	}
	E.CS.Alias = E.closureAliases()
	// contracts: every contracts_verif.go in loaded repo packages
	seen := map[string]bool{}
	packages.Visit(pkgs, nil, func(p *packages.Package) {
		if !strings.HasPrefix(p.PkgPath, "github.com/IrineSistiana/mosdns") {
			return
		}
		for _, gf := range p.GoFiles {
			if strings.HasSuffix(gf, "contracts_verif.go") && !seen[gf] {
				seen[gf] = true
				imps := map[string]string{}
				for path, ip := range p.Imports {
					imps[ip.Name] = path
				}
				// honour renamed imports in the package's files
				for _, sf := range p.Syntax {
					for _, is := range sf.Imports {
						if is.Name != nil && is.Name.Name != "_" && is.Name.Name != "." {
							imps[is.Name.Name] = strings.Trim(is.Path.Value, `"`)
						}
					}
				}
				E.CS.LoadContractFile(gf, p.PkgPath, imps, false)
			}
		}
	})
	if specDir != "" {
		fs, _ := filepath.Glob(filepath.Join(specDir, "*.gspec"))
		sort.Strings(fs)
		for _, f := range fs {
			E.CS.LoadContractFile(f, "", nil, true)
		}
	}
	if len(E.CS.Errors) > 0 {
		return nil, fmt.Errorf("contract errors:\n  %s", strings.Join(E.CS.Errors, "\n  "))
	}
	E.scanInits()
	if err := E.installAxioms(); err != nil {
		return nil, err
	}
	return E, nil
}

// scanInits finds package-level error variables initialised by errors.New / fmt.Errorf.
func (E *Engine) scanInits() {
	for _, p := range E.Prog.AllPackages() {
		init := p.Func("init")
		if init == nil {
			continue
		}
		for _, b := range init.Blocks {
			for _, in := range b.Instrs {
				st, ok := in.(*ssa.Store)
				if !ok {
					continue
				}
				g, ok := st.Addr.(*ssa.Global)
				if !ok {
					continue
				}
				if c, ok := st.Val.(*ssa.Call); ok {
					if sc := c.Call.StaticCallee(); sc != nil {
						n := sc.String()
						if n == "errors.New" || n == "fmt.Errorf" || n == "go.uber.org/zap.NewNop" {
							E.nonNilGlobals[g.Pkg.Pkg.Path()+"."+g.Name()] = true
						}
					}
				}
				if mi, ok := st.Val.(*ssa.MakeInterface); ok {
					_ = mi
					E.nonNilGlobals[g.Pkg.Pkg.Path()+"."+g.Name()] = true
				}
			}
		}
	}
}

func (E *Engine) note(format string, a ...interface{}) {
	s := fmt.Sprintf(format, a...)
	if E.cur != nil {
		s = E.cur.key + ": " + s
	}
	if !E.noteSet[s] {
		E.noteSet[s] = true
		E.Notes = append(E.Notes, s)
	}
}

func (E *Engine) typeID(T types.Type) int {
	k := typeKey(T)
	if id, ok := E.typeIDs[k]; ok {
		return id
	}
	id := len(E.typeIDs) + 1
	E.typeIDs[k] = id
	return id
}

// lookupType finds a named type "importpath.Name".
func (E *Engine) lookupObj(path, name string) types.Object {
	if p, ok := E.AllPkgs[path]; ok {
		return p.Scope().Lookup(name)
	}
	return nil
}

func (E *Engine) resolveCType(ctx *FileCtx, t *CType) types.Type {
	if t == nil {
		return tMath
	}
	switch t.Kind {
	case "ptr":
		return types.NewPointer(E.resolveCType(ctx, t.Elem))
	case "slice":
		return types.NewSlice(E.resolveCType(ctx, t.Elem))
	case "map":
		return types.NewMap(E.resolveCType(ctx, t.Key), E.resolveCType(ctx, t.Elem))
	case "emptystruct":
		return types.NewStruct(nil, nil)
	}
	if t.Pkg == "" {
		switch t.Name {
		case "int", "mathint", "nat", "u128":
			return tMath
		case "bool":
			return tBool
		case "string":
			return tString
		case "ref":
			return types.Typ[types.UnsafePointer]
		}
		if o := types.Universe.Lookup(t.Name); o != nil {
			if tn, ok := o.(*types.TypeName); ok {
				return tn.Type()
			}
		}
		if ctx != nil && ctx.PkgPath != "" {
			if o := E.lookupObj(ctx.PkgPath, t.Name); o != nil {
				if tn, ok := o.(*types.TypeName); ok {
					return tn.Type()
				}
			}
		}
		panic(engineErr(fmt.Sprintf("contract type %q not found", t.Name)))
	}
	path := t.Pkg
	if ctx != nil {
		if p, ok := ctx.Imports[t.Pkg]; ok {
			path = p
		}
	}
	if o := E.lookupObj(path, t.Name); o != nil {
		if tn, ok := o.(*types.TypeName); ok {
			return tn.Type()
		}
	}
	// try by package name among all packages
	for pp, p := range E.AllPkgs {
		if p.Name() == t.Pkg || pp == t.Pkg {
			if o := p.Scope().Lookup(t.Name); o != nil {
				if tn, ok := o.(*types.TypeName); ok {
					return tn.Type()
				}
			}
		}
	}
	panic(engineErr(fmt.Sprintf("contract type %s.%s not found", t.Pkg, t.Name)))
}

type engineErr string

// installAxioms translates `axiom name: expr` clauses into prelude axioms that are
// included in a query when one of the spec-function symbols they mention occurs.
func (E *Engine) installAxioms() (err error) {
	defer func() {
		if r := recover(); r != nil {
			if ee, ok := r.(engineErr); ok {
				err = fmt.Errorf("axiom: %s", string(ee))
				return
			}
			panic(r)
		}
	}()
	for _, n := range E.CS.NonNil {
		E.nonNilGlobals[n] = true
	}
	E.cur = &fnCtx{key: "axioms", compSort: map[string]string{}, touched: map[string]bool{}, compPtr: map[string]bool{}, factSeen: map[string]bool{}}
	for _, cl := range E.CS.Axioms {
		ev := &cenv{E: E, ctx: cl.Ctx, vars: map[string]*Val{}, heap: map[string]string{}}
		body := ev.evalBool(cl.Expr)
		var trig []string
		for _, m := range symRe.FindAllString(body, -1) {
			if strings.HasPrefix(m, "|spec:") {
				trig = append(trig, m)
			}
		}
		if len(trig) == 0 {
			return fmt.Errorf("%s:%d: axiom mentions no spec function", cl.File, cl.Line)
		}
		E.axioms = append(E.axioms, axiom{Name: cl.Kind, Body: body, Trigger: trig})
	}
	E.cur = nil
	return nil
}
