package gocv

import (
	"crypto/sha256"
	"encoding/json"
	"fmt"
	"os"
	"path/filepath"
	"sort"
	"strings"
	"time"
)

type Finding struct {
	Property   string                 `json:"property"`
	Status     string                 `json:"status"` // known | fixed
	Obligation string                 `json:"obligation"`
	Witness    map[string]interface{} `json:"witness,omitempty"`
	What       string                 `json:"what"`
	Commit     string                 `json:"commit,omitempty"`
}

type ObResult struct {
	Name     string   `json:"name"`
	Function string   `json:"function"`
	Kind     string   `json:"kind"`
	Paths    int      `json:"paths"`
	Status   string   `json:"status"`
	Solver   string   `json:"solver"`
	Ms       int64    `json:"ms"`
	Pos      string   `json:"pos,omitempty"`
	Goal     string   `json:"goal,omitempty"`
	Solvers  []string `json:"solvers,omitempty"`
}

type CheckOpts struct {
	Prop     string
	Tier     string
	RepoDir  string
	VerifDir string
	Seed     int64
	Verbose  bool
	OnlyFunc string
}

type group struct {
	name  string
	obs   []*Oblig
	worst *Oblig
}

func statusRank(s string) int {
	switch s {
	case "unsat":
		return 0
	case "unknown", "timeout", "error":
		return 1
	case "sat":
		return 2
	}
	return 1
}

// RunCheck runs the check of one property and returns the process exit code.
// inScope: the function key (e.g. "(*github.com/IrineSistiana/mosdns/v5/pkg/x.T).M" or
// "github.com/IrineSistiana/mosdns/v5/pkg/x.F$1") belongs to one of the package prefixes.
func inScope(prefixes []string, key string) bool {
	for _, p := range prefixes {
		if strings.Contains(key, "/mosdns/v5/"+p+".") || strings.Contains(key, "/mosdns/v5/"+p+"/") {
			return true
		}
	}
	return false
}

func RunCheck(o CheckOpts) int {
	t0 := time.Now()
	outDir := filepath.Join(o.VerifDir, "out", o.Prop)
	_ = os.RemoveAll(outDir)
	_ = os.MkdirAll(outDir, 0o755)
	evPath := filepath.Join(o.VerifDir, "evidence", o.Prop+".json")
	if d := os.Getenv("VERIF_EVIDENCE_DIR"); d != "" {
		// trial runs on deliberately broken trees (selftest, seeded changes) must not overwrite
		// the evidence of the real tree
		_ = os.MkdirAll(d, 0o755)
		evPath = filepath.Join(d, o.Prop+".json")
	}
	_ = os.MkdirAll(filepath.Dir(evPath), 0o755)

	E, err := Load(o.RepoDir, filepath.Join(o.VerifDir, "spec"), []string{"./..."})
	if err != nil {
		return failHard(o, evPath, t0, "load", err.Error())
	}
	E.Tier = o.Tier
	// functions under contract for this property: tagged with it, or in one of its scope packages
	scopes := map[string][]string{}
	if b, err := os.ReadFile(filepath.Join(o.VerifDir, "spec", "scopes.json")); err == nil {
		raw := map[string]interface{}{}
		if json.Unmarshal(b, &raw) == nil {
			for p, v := range raw {
				if l, ok := v.([]interface{}); ok {
					for _, x := range l {
						if sx, ok := x.(string); ok {
							scopes[p] = append(scopes[p], sx)
						}
					}
				}
			}
		}
	}
	E.ScopeAll = len(scopes[o.Prop]) > 0
	var keys []string
	for _, k := range E.CS.FuncKeys() {
		fs := E.CS.Funcs[k]
		if fs.Trusted || fs.NoBody || fs.IsIface {
			continue
		}
		if strings.HasPrefix(k, "fieldfn:") || strings.HasPrefix(k, "paramfn:") || strings.HasPrefix(k, "var:") {
			continue // contracts of function VALUES: assumed at their call sites, nothing to verify
		}
		if !fs.HasTag(o.Prop) && !inScope(scopes[o.Prop], k) {
			continue
		}
		if o.OnlyFunc != "" && !strings.Contains(k, o.OnlyFunc) {
			continue
		}
		keys = append(keys, k)
	}
	type fnInfo struct {
		Key   string `json:"key"`
		File  string `json:"file"`
		Sha   string `json:"sha256"`
		Paths int    `json:"paths"`
		Err   string `json:"error,omitempty"`
	}
	var fns []fnInfo
	var bindFail []*Oblig
	for _, k := range keys {
		fi := fnInfo{Key: k}
		if fn := E.Funcs[k]; fn != nil && fn.Syntax() != nil {
			p0 := E.Prog.Fset.Position(fn.Syntax().Pos())
			p1 := E.Prog.Fset.Position(fn.Syntax().End())
			if src, err := os.ReadFile(p0.Filename); err == nil && p1.Offset <= len(src) {
				fi.Sha = fmt.Sprintf("%x", sha256.Sum256(src[p0.Offset:p1.Offset]))
			}
			fi.File = fmt.Sprintf("%s:%d", strings.TrimPrefix(p0.Filename, o.RepoDir+"/"), p0.Line)
		}
		E.Quick = o.Tier != "thorough"
		err := E.VerifyFunc(k, []string{o.Prop})
		if E.cur != nil {
			fi.Paths = E.cur.paths
		}
		if err != nil {
			fi.Err = err.Error()
			ob := &Oblig{Name: shortKey(k) + "/contract-binding", Kind: "contract-binding", Func: k, Props: []string{o.Prop},
				Goal: err.Error(), Res: SolverResult{Status: "unknown", Output: err.Error()}}
			bindFail = append(bindFail, ob)
		}
		fns = append(fns, fi)
	}
	var obs []*Oblig
	for _, ob := range E.Obligs {
		for _, p := range ob.Props {
			if p == o.Prop {
				obs = append(obs, ob)
				break
			}
		}
	}
	genS := time.Since(t0).Seconds()
	tsec := 20
	if o.Tier == "thorough" {
		tsec = 60
	}
	Discharge(obs, outDir, tsec, o.Tier == "thorough")
	obs = append(obs, bindFail...)
	for _, ob := range E.checkImmutableWrites(o.Prop) {
		obs = append(obs, ob)
	}

	// group by name
	groups := map[string]*group{}
	var names []string
	for _, ob := range obs {
		g := groups[ob.Name]
		if g == nil {
			g = &group{name: ob.Name}
			groups[ob.Name] = g
			names = append(names, ob.Name)
		}
		g.obs = append(g.obs, ob)
		if ob.Kind == "cover" {
			// a cover point reached on several paths is fine as soon as one of them is feasible
			if g.worst == nil || statusRank(ob.Res.Status) < statusRank(g.worst.Res.Status) {
				g.worst = ob
			}
		} else if g.worst == nil || statusRank(ob.Res.Status) > statusRank(g.worst.Res.Status) {
			g.worst = ob
		}
	}
	sort.Strings(names)

	// known findings
	var findings []Finding
	if b, err := os.ReadFile(filepath.Join(o.VerifDir, "known_findings.json")); err == nil {
		_ = json.Unmarshal(b, &findings)
	}
	known := map[string]Finding{}
	for _, f := range findings {
		if f.Property == o.Prop && f.Status == "known" {
			known[f.Obligation] = f
		}
	}

	// floor
	floor := 0
	if b, err := os.ReadFile(filepath.Join(o.VerifDir, "obligation_floor.json")); err == nil {
		m := map[string]int{}
		_ = json.Unmarshal(b, &m)
		floor = m[o.Prop]
	}

	var results []ObResult
	discharged := 0
	var solverMs int64
	violations := 0
	var lines []string
	for _, n := range names {
		g := groups[n]
		w := g.worst
		r := ObResult{Name: n, Function: shortKey(w.Func), Kind: w.Kind, Paths: len(g.obs), Status: w.Res.Status, Solver: w.Res.Solver, Ms: 0, Pos: w.Pos, Goal: w.Goal, Solvers: w.Res.All}
		for _, ob := range g.obs {
			r.Ms += ob.Res.Ms
		}
		solverMs += r.Ms
		if w.Kind == "cover" && strings.HasPrefix(n, "") && w.Res.Status != "unsat" && strings.Contains(n, "/cover#return") {
			// a single unreachable return is not vacuity as long as some return of the function is reachable
			anyOK := false
			for _, n2 := range names {
				if strings.HasPrefix(n2, n[:strings.Index(n, "/cover#")]+"/cover#return") && groups[n2].worst.Res.Status == "unsat" {
					anyOK = true
				}
			}
			if anyOK {
				w.Res.Status = "unsat"
				w.Res.Solver = "cover:other-return-reachable"
				r.Status = "unsat"
			}
		}
		if w.Res.Status == "unsat" {
			discharged++
		} else if kf, ok := known[n]; ok {
			lines = append(lines, fmt.Sprintf("KNOWN-FINDING: property=%s %s [%s]", o.Prop, kf.What, n))
			r.Status = "known-finding(" + w.Res.Status + ")"
		} else {
			violations++
			rp := writeReplay(o, E, w)
			tail := ""
			confirmed := runReplay(o, rp)
			if !confirmed {
				tail = " no-failing-input-found"
			}
			lines = append(lines, fmt.Sprintf("VIOLATION property=%s replay=%s obligation=%s status=%s%s", o.Prop, rp, n, w.Res.Status, tail))
		}
		results = append(results, r)
	}
	total := len(names)
	if o.OnlyFunc == "" && (total == 0 || total < floor) {
		violations++
		rp := filepath.Join(outDir, "vacuity.json")
		_ = os.WriteFile(rp, []byte(fmt.Sprintf(`{"property":%q,"obligation":"vacuity","detail":"%d obligations generated, floor %d"}`, o.Prop, total, floor)), 0o644)
		lines = append(lines, fmt.Sprintf("VIOLATION property=%s replay=%s obligation=vacuity(obligations=%d,floor=%d) no-failing-input-found", o.Prop, rp, total, floor))
	}

	// evidence
	var samples []map[string]string
	for _, n := range names {
		w := groups[n].worst
		if len(samples) < 4 && !w.Trivial && w.Kind != "contract-binding" {
			samples = append(samples, map[string]string{"obligation": n, "goal": w.Goal, "pos": w.Pos, "status": w.Res.Status, "smt_tail": tail(w.SMT, 600)})
		}
	}
	trusted := []string{
		"go/packages + go/types + go/ssa (x/tools v0.29.0) translate the working tree faithfully",
		"gocv VC generator (this engine): heap model, path enumeration, loop cutting",
		"SMT solvers z3 5.1.0 / z3 4.8.12 / cvc5 1.0.3",
	}
	var assumptions []string
	for _, k := range E.CS.FuncKeys() {
		fs := E.CS.Funcs[k]
		if fs.Trusted && E.usedSpecs[k] {
			assumptions = append(assumptions, "assumed contract (ledger): "+k)
		}
	}
	for _, n := range E.Notes {
		assumptions = append(assumptions, "note: "+n)
	}
	if len(E.Deferred) > 0 {
		seen := map[string]bool{}
		n := 0
		for _, d := range E.Deferred {
			if !seen[d] {
				seen[d] = true
				n++
			}
		}
		assumptions = append(assumptions, fmt.Sprintf("quick tier: %d obligation sites of clauses marked [slow] are assumed here and proved by the thorough tier only", n))
	}
	for _, a := range E.CS.Assumed {
		assumptions = append(assumptions, "assumed in a contract file (not proved): "+a)
	}
	for n := range E.CS.NonNilIfaces {
		assumptions = append(assumptions, "assumed (ledger nonnil-stored): a value of interface type "+n+" read from memory is not nil; checked at the stores and single-element appends of functions under contract, assumed for all other writers")
	}
	for _, n := range E.CS.NonNil {
		assumptions = append(assumptions, "assumed non-nil package variable (ledger): "+n)
	}
	if len(E.CS.ChanMsgs) > 0 {
		assumptions = append(assumptions, "channels: thread-modular; message invariants (chanmsg) are proved at every send of the functions under contract and assumed at receives; sends by functions without a contract are not covered")
	}
	assumptions = append(assumptions,
		"integers: mathematical Int with explicit mod-2^w wrap for unsigned types; signed +,-,* carry an overflow obligation",
		"slice/string lengths are at most 2^48 (runtime maxAlloc)",
		"package-level variables are constant after init",
		"objects allocated by the function under verification whose address was never stored, boxed or handed to other code are out of reach of callees (syntactic escape analysis, priv.go); captured variables that nothing can write after the closure's creation are treated the same (fragment.go)",
		"calls to helpers of this module that have no contract are executed in place when loop-free and small; their own nil/bounds/overflow/type-assertion conditions are assumed (each such call is listed as a note)",
		"`captured` clauses are proved on the creating basic block of the enclosing function started from an arbitrary state; that function's own safety conditions on the way are assumed",
		"no liveness/termination unless a decreases clause is discharged")
	// thorough tier: every stored witness of the property (the inputs / schedules that exposed
	// the defects found so far, plus boundary cases) is replayed against the real code; a
	// confirmed failure is a violation with a concrete failing input.
	var replays []map[string]interface{}
	if o.Tier == "thorough" && os.Getenv("VERIF_NO_REPLAY") == "" {
		if cfg := loadReplayCfg(o.VerifDir, o.Prop); cfg != nil {
			for _, sw := range cfg.Witnesses {
				cfgc := *cfg
				if sw.Driver != nil {
					cfgc.Driver = *sw.Driver
				}
				ok, out, cmd := RunDriver(o.RepoDir, o.VerifDir, o.Prop, &cfgc, sw.Witness)
				replays = append(replays, map[string]interface{}{"witness": sw.Name, "confirmed_failure": ok, "cmd": cmd})
				if ok {
					violations++
					rp := filepath.Join(o.VerifDir, "out", "replay", o.Prop, "stored-"+sw.Name+".json")
					_ = os.MkdirAll(filepath.Dir(rp), 0o755)
					rb, _ := json.MarshalIndent(map[string]interface{}{"property": o.Prop, "obligation": "replay:" + sw.Name, "witness": sw.Witness,
						"driver": map[string]interface{}{"confirmed": true, "cmd": cmd, "output": out}}, "", " ")
					_ = os.WriteFile(rp, rb, 0o644)
					lines = append(lines, fmt.Sprintf("VIOLATION property=%s replay=%s obligation=replay:%s status=failing-input-confirmed", o.Prop, rp, sw.Name))
				}
			}
		}
	}
	var canaries interface{}
	if f := os.Getenv("VERIF_CANARY_FILE"); f != "" {
		if cb, err := os.ReadFile(f); err == nil {
			_ = json.Unmarshal(cb, &canaries)
		}
	}
	ev := map[string]interface{}{
		"property_id": o.Prop,
		"canaries":    canaries,
		"replayed_witnesses": replays,
		"tier":        o.Tier,
		"seed":        o.Seed,
		"level":       "proof",
		"coverage": map[string]interface{}{
			"obligations":     total,
			"discharged":      discharged,
			"checker_cmd":     fmt.Sprintf("./bin/vcheck check %s --tier %s", o.Prop, o.Tier),
			"trusted_base":    trusted,
			"functions":       fns,
			"per_obligation":  results,
			"samples":         samples,
			"solver_ms_total": solverMs,
			"obligation_instances": len(obs),
			"backend":         "z3-new 5.1.0 first; z3 4.8.12 and cvc5 1.0.3 raced when undecided (thorough: all three, sat wins)",
		},
		"assumptions": assumptions,
		"wall_s":      time.Since(t0).Seconds(),
		"violations":  violations,
	}
	b, _ := json.MarshalIndent(ev, "", " ")
	_ = os.WriteFile(evPath, b, 0o644)

	for _, l := range lines {
		fmt.Println(l)
	}
	fmt.Printf("property=%s tier=%s functions=%d obligations=%d discharged=%d violations=%d wall=%.1fs (vcgen %.1fs)\n", o.Prop, o.Tier, len(fns), total, discharged, violations, time.Since(t0).Seconds(), genS)
	if o.Verbose {
		for _, ob := range obs {
			if ob.WallMs > 1500 {
				fmt.Printf("  slow %dms %s %v\n", ob.WallMs, ob.Name, ob.Res.All)
			}
		}
		for _, r := range results {
			fmt.Printf("  %-8s %-70s %s %dms x%d  %s\n", r.Status, r.Name, r.Solver, r.Ms, r.Paths, r.Pos)
			if r.Status != "unsat" {
				for _, ob := range groups[r.Name].obs {
					if ob.Res.Status != "unsat" {
						fmt.Printf("      path %s: %s %v %s\n", ob.Trace, ob.Res.Status, ob.Res.All, ob.File)
					}
				}
			}
		}
		for _, n := range E.Notes {
			fmt.Println("  note:", n)
		}
	}
	if violations > 0 {
		return 1
	}
	return 0
}

func tail(s string, n int) string {
	if len(s) > n {
		return "…" + s[len(s)-n:]
	}
	return s
}

func failHard(o CheckOpts, evPath string, t0 time.Time, what, msg string) int {
	outDir := filepath.Join(o.VerifDir, "out", o.Prop)
	rp := filepath.Join(outDir, what+".json")
	b, _ := json.MarshalIndent(map[string]string{"property": o.Prop, "obligation": what, "detail": msg}, "", " ")
	_ = os.WriteFile(rp, b, 0o644)
	ev := map[string]interface{}{
		"property_id": o.Prop, "tier": o.Tier, "seed": o.Seed, "level": "proof",
		"coverage": map[string]interface{}{"obligations": 1, "discharged": 0, "checker_cmd": "./bin/vcheck check " + o.Prop, "trusted_base": []string{}, "explanation": what + ": " + msg, "evaluations": 1, "distinct_nontrivial": 2},
		"wall_s":   time.Since(t0).Seconds(), "violations": 1,
	}
	eb, _ := json.MarshalIndent(ev, "", " ")
	_ = os.WriteFile(evPath, eb, 0o644)
	fmt.Printf("VIOLATION property=%s replay=%s obligation=%s no-failing-input-found\n", o.Prop, rp, what)
	fmt.Println(msg)
	return 1
}

func writeReplay(o CheckOpts, E *Engine, ob *Oblig) string {
	dir := filepath.Join(o.VerifDir, "out", "replay", o.Prop)
	_ = os.MkdirAll(dir, 0o755)
	name := strings.NewReplacer("/", "_", " ", "_", "(", "", ")", "", "*", "", "#", "-", "<", "", ">", "", ",", "_", "!", "_").Replace(ob.Name)
	rp := filepath.Join(dir, name+".json")
	m := map[string]interface{}{
		"property":   o.Prop,
		"obligation": ob.Name,
		"function":   ob.Func,
		"kind":       ob.Kind,
		"goal":       ob.Goal,
		"clause":     ob.Clause,
		"pos":        ob.Pos,
		"solver":     map[string]interface{}{"name": ob.Res.Solver, "answer": ob.Res.Status, "ms": ob.Res.Ms, "transcript": ob.Res.Output, "all": ob.Res.All},
		"model":      ob.Res.Model,
		"witness":    WitnessFromModel(ob.ValueNames, ob.Res.Values),
		"smt_file":   ob.File,
		"driver":     map[string]interface{}{"confirmed": false},
	}
	b, _ := json.MarshalIndent(m, "", " ")
	_ = os.WriteFile(rp, b, 0o644)
	return rp
}
