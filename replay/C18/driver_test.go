package upstream

// Replay driver for C18 (injected with go test -overlay; never written to /repo).
// Oracle: the address helpers hand on exactly the host and port the user wrote,
// computed here independently with the standard library.

import (
	"encoding/json"
	"fmt"
	"net"
	"os"
	"strconv"
	"testing"
)

type c18w struct {
	Params map[string]interface{} `json:"params"`
}

func (w c18w) str(k string) (string, bool) {
	v, ok := w.Params[k].(string)
	return v, ok
}

func refSplit(s string) (string, uint16, bool) {
	h, p, err := net.SplitHostPort(s)
	if err != nil {
		return s, 0, true
	}
	n, err := strconv.ParseUint(p, 10, 16)
	if err != nil {
		return "", 0, false
	}
	return h, uint16(n), true
}

func TestVerifReplay(t *testing.T) {
	b, err := os.ReadFile(os.Getenv("VERIF_WITNESS"))
	if err != nil {
		t.Skip("no witness")
	}
	var w c18w
	if err := json.Unmarshal(b, &w); err != nil {
		t.Fatal(err)
	}
	if s, ok := w.str("s"); ok {
		func() {
			defer func() {
				if r := recover(); r != nil {
					t.Errorf("VERIF-REPLAY-CONFIRMED: tryTrimIpv6Brackets(%q) panics: %v", s, r)
				}
			}()
			want := s
			if len(s) >= 2 && s[0] == '[' && s[len(s)-1] == ']' {
				want = s[1 : len(s)-1]
			}
			if got := tryTrimIpv6Brackets(s); got != want {
				t.Errorf("VERIF-REPLAY-CONFIRMED: tryTrimIpv6Brackets(%q) = %q, the user wrote %q", s, got, want)
			}
			wantHost := s
			if h, _, err := net.SplitHostPort(s); err == nil {
				wantHost = h
			}
			if got := tryRemovePort(s); got != wantHost {
				t.Errorf("VERIF-REPLAY-CONFIRMED: tryRemovePort(%q) = %q, want %q", s, got, wantHost)
			}
		}()
	}
	if u, ok := w.str("urlHost"); ok {
		d, _ := w.str("dialAddr")
		dp := uint16(53)
		if f, ok := w.Params["defaultPort"].(float64); ok {
			dp = uint16(f)
		}
		eff := u
		if len(d) > 0 {
			eff = d
		}
		wh, wp, wok := refSplit(eff)
		if wp == 0 {
			wp = dp
		}
		h, p, err := parseDialAddr(u, d, dp)
		if wok != (err == nil) || (wok && (h != wh || p != wp)) {
			t.Errorf("VERIF-REPLAY-CONFIRMED: parseDialAddr(%q,%q,%d) = (%q,%d,%v), the user wrote host %q port %d (accepted=%v)", u, d, dp, h, p, err, wh, wp, wok)
		}
		sh, sp, serr := trySplitHostPort(eff)
		rh, rp, rok := refSplit(eff)
		if rok != (serr == nil) || (rok && (sh != rh || sp != rp)) {
			t.Errorf("VERIF-REPLAY-CONFIRMED: trySplitHostPort(%q) = (%q,%d,%v), want (%q,%d,ok=%v)", eff, sh, sp, serr, rh, rp, rok)
		}
	}
	if h, ok := w.str("host"); ok {
		if pf, ok := w.Params["port"].(float64); ok {
			want := net.JoinHostPort(h, fmt.Sprint(uint16(pf)))
			if got := joinPort(h, uint16(pf)); got != want {
				t.Errorf("VERIF-REPLAY-CONFIRMED: joinPort(%q,%d) = %q, want %q", h, uint16(pf), got, want)
			}
		}
	}
}
