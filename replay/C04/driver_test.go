package cache

// Replay driver for C04 (injected with go test -overlay; never written to /repo).
// Witness: two queries q1, q2. Oracle (the property statement): the second of two
// different queries run through the real cache.Exec must reach the next plugin;
// it must never be answered from the entry stored for the first.

import (
	"context"
	"encoding/json"
	"os"
	"testing"

	"github.com/IrineSistiana/mosdns/v5/pkg/query_context"
	"github.com/IrineSistiana/mosdns/v5/plugin/executable/sequence"
	"github.com/miekg/dns"
)

type vq struct {
	Name     string `json:"name"`
	Qtype    uint16 `json:"qtype"`
	Qclass   uint16 `json:"qclass"`
	AD       bool   `json:"ad"`
	CD       bool   `json:"cd"`
	DO       bool   `json:"do"`
	Response bool   `json:"response"`
	Opcode   int    `json:"opcode"`
}

type vw struct {
	Q1           vq   `json:"q1"`
	Q2           vq   `json:"q2"`
	ExpectBypass bool `json:"expect_bypass"`
}

func (v vq) msg(id uint16) *dns.Msg {
	m := new(dns.Msg)
	m.Id = id
	m.Question = []dns.Question{{Name: v.Name, Qtype: v.Qtype, Qclass: v.Qclass}}
	m.AuthenticatedData = v.AD
	m.CheckingDisabled = v.CD
	m.Response = v.Response
	m.Opcode = v.Opcode
	if v.DO {
		m.SetEdns0(1232, true)
	}
	return m
}

// countingNext stands for the rest of the chain: n counts the queries that
// reach it without an answer already served from the cache.
type countingNext struct{ n int }

func (c *countingNext) Exec(_ context.Context, qCtx *query_context.Context) error {
	if qCtx.R() != nil {
		return nil // served from cache
	}
	c.n++
	r := new(dns.Msg)
	r.SetReply(qCtx.Q())
	r.Answer = append(r.Answer, &dns.TXT{Hdr: dns.RR_Header{Name: qCtx.Q().Question[0].Name, Rrtype: dns.TypeTXT, Class: dns.ClassINET, Ttl: 300}, Txt: []string{"x"}})
	qCtx.SetResponse(r)
	return nil
}

func TestVerifReplay(t *testing.T) {
	b, err := os.ReadFile(os.Getenv("VERIF_WITNESS"))
	if err != nil {
		t.Skip("no witness")
	}
	var w vw
	if err := json.Unmarshal(b, &w); err != nil {
		t.Fatal(err)
	}
	same := w.Q1 == w.Q2
	k1, k2 := getMsgKey(w.Q1.msg(1)), getMsgKey(w.Q2.msg(2))
	c := NewCache(&Args{Size: 1024}, Opts{})
	defer c.Close()
	next := &countingNext{}
	chain := []*sequence.ChainNode{{E: next}}
	// The DO flag the cache sees is the one of the query inside the context: NewContext replaces
	// the client's OPT by a fresh one (EDNS0 is terminated, C15), so a DO set by the CLIENT never
	// reaches the cache — or the upstream, whose answer therefore does not depend on it. The
	// property is about the query the answer was stored for, so DO is set on that query, the way
	// a plugin in front of the cache would.
	run := func(q *dns.Msg, do bool) {
		qCtx := query_context.NewContext(q)
		if do {
			if opt := qCtx.Q().IsEdns0(); opt != nil {
				opt.SetDo()
			}
		}
		if err := c.Exec(context.Background(), qCtx, sequence.NewChainWalker(chain, nil)); err != nil {
			t.Fatal(err)
		}
	}
	run(w.Q1.msg(1), w.Q1.DO)
	run(w.Q2.msg(2), w.Q2.DO)
	if w.ExpectBypass {
		// non-queries must bypass the cache entirely
		if next.n != 2 || k1 != "" {
			t.Errorf("VERIF-REPLAY-CONFIRMED: a message that is not a standard query was cached (key %q, next called %d times)", k1, next.n)
		}
		return
	}
	if !same && next.n != 2 {
		t.Errorf("VERIF-REPLAY-CONFIRMED: different questions share a cache entry: %+v vs %+v (keys %q / %q, next plugin called %d time(s))", w.Q1, w.Q2, k1, k2, next.n)
	}
}
