package transport

// Replay driver for C02 (injected with go test -overlay; never written to /repo).
// A synchronous fake NetConn reproduces the two schedules of the property's observe_at:
//   early-reply:      the reply is read and dispatched by the reader while the caller is still inside
//                     Write (it has not reached its wait yet);
//   reply-then-close: the reply is dispatched and the peer closes before the caller reaches its
//                     wait, so reply and close notification are both ready.
// Oracle: the reply was received on the connection before the caller's deadline, so the exchange
// must return it.

import (
	"context"
	"encoding/binary"
	"encoding/json"
	"io"
	"os"
	"sync"
	"testing"
	"time"

	"github.com/miekg/dns"
)

type verifSyncConn struct {
	tcp         bool
	closeAfter  bool
	mu          sync.Mutex
	pending     [][]byte      // frames readable now
	readCalls   int           // number of Read calls started
	cond        *sync.Cond
	eof         bool
	closed      bool
	waitClosed  func()        // blocks until the dns connection saw the close
}

func newVerifSyncConn(tcp, closeAfter bool) *verifSyncConn {
	c := &verifSyncConn{tcp: tcp, closeAfter: closeAfter}
	c.cond = sync.NewCond(&c.mu)
	return c
}

func (c *verifSyncConn) Read(p []byte) (int, error) {
	c.mu.Lock()
	defer c.mu.Unlock()
	c.readCalls++
	c.cond.Broadcast()
	for len(c.pending) == 0 && !c.eof && !c.closed {
		c.cond.Wait()
	}
	if len(c.pending) > 0 {
		f := c.pending[0]
		n := copy(p, f)
		if n < len(f) {
			c.pending[0] = f[n:]
		} else {
			c.pending = c.pending[1:]
		}
		return n, nil
	}
	return 0, io.EOF
}

func (c *verifSyncConn) Write(p []byte) (int, error) {
	q := p
	if c.tcp {
		q = p[2:]
	}
	m := new(dns.Msg)
	if err := m.Unpack(q); err != nil {
		return 0, err
	}
	r := new(dns.Msg)
	r.SetReply(m)
	rb, _ := r.Pack()
	if c.tcp {
		f := make([]byte, 2+len(rb))
		binary.BigEndian.PutUint16(f, uint16(len(rb)))
		copy(f[2:], rb)
		rb = f
	}
	c.mu.Lock()
	start := c.readCalls
	c.pending = append(c.pending, rb)
	if c.closeAfter {
		c.eof = true
	}
	c.cond.Broadcast()
	if !c.closeAfter {
		// return only after the reader consumed the reply and came back for the next read:
		// the reply has been dispatched by then
		for !(len(c.pending) == 0 && c.readCalls > start) && !c.closed {
			c.cond.Wait()
		}
	}
	c.mu.Unlock()
	if c.closeAfter && c.waitClosed != nil {
		c.waitClosed() // the reader handed the reply over (before reading EOF) and closed the connection
	}
	return len(p), nil
}

func (c *verifSyncConn) Close() error {
	c.mu.Lock()
	c.closed = true
	c.cond.Broadcast()
	c.mu.Unlock()
	return nil
}
func (c *verifSyncConn) SetDeadline(time.Time) error      { return nil }
func (c *verifSyncConn) SetReadDeadline(time.Time) error  { return nil }
func (c *verifSyncConn) SetWriteDeadline(time.Time) error { return nil }

func TestVerifReplay(t *testing.T) {
	b, err := os.ReadFile(os.Getenv("VERIF_WITNESS"))
	if err != nil {
		t.Skip("no witness")
	}
	var w struct {
		Op     string `json:"op"`
		Conn   string `json:"conn"` // "udp", "tcp" (pipelining connection) or "reuse"
		Rounds int    `json:"rounds"`
	}
	if err := json.Unmarshal(b, &w); err != nil {
		t.Fatal(err)
	}
	if w.Rounds == 0 {
		w.Rounds = 20
	}
	q := new(dns.Msg)
	q.SetQuestion("example.com.", dns.TypeA)
	qb, _ := q.Pack()
	lost := 0
	var lastErr error
	for i := 0; i < w.Rounds; i++ {
		closeAfter := w.Op == "reply-then-close"
		ctx, cancel := context.WithTimeout(context.Background(), 400*time.Millisecond)
		var r *[]byte
		var err error
		switch w.Conn {
		case "udp", "tcp":
			nc := newVerifSyncConn(w.Conn == "tcp", closeAfter)
			dc := NewDnsConn(TraditionalDnsConnOpts{WithLengthHeader: w.Conn == "tcp"}, nc)
			nc.waitClosed = func() { <-dc.closeNotify }
			rec, _ := dc.ReserveNewQuery()
			if rec == nil {
				t.Fatal("fresh connection refused the query")
			}
			r, err = rec.ExchangeReserved(ctx, qb)
			dc.Close()
		case "reuse":
			nc := newVerifSyncConn(true, closeAfter)
			tr := NewReuseConnTransport(ReuseConnOpts{DialContext: func(ctx context.Context) (NetConn, error) { return nc, nil }})
			rc, gerr := tr.getNewConn(ctx)
			if gerr != nil {
				t.Fatal(gerr)
			}
			nc.waitClosed = func() { <-rc.closeNotify }
			payload, _ := copyMsgWithLenHdr(qb)
			r, err = rc.exchange(ctx, payload)
			tr.Close()
		default:
			t.Fatalf("unknown conn %q", w.Conn)
		}
		cancel()
		if err != nil || r == nil {
			lost++
			lastErr = err
		}
	}
	if lost > 0 {
		t.Errorf("VERIF-REPLAY-CONFIRMED: %s/%s: the reply was received on the connection before the deadline, yet %d of %d exchanges failed (last error: %v)", w.Op, w.Conn, lost, w.Rounds, lastErr)
	}
}
