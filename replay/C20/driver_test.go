package fallback

// Replay driver for C20 (injected with go test -overlay; never written to /repo).
// Schedules (witness "op"):
//   standby-overtake: always_standby, primary and secondary both answer at once, well inside the
//     threshold. Oracle: the caller must get the PRIMARY's answer. The secondary may overtake only
//     if the primary goroutine is descheduled between close(primDone) and its send, so the driver
//     repeats the round many times under CPU pressure (best effort: a race window of two
//     statements cannot be forced from outside the code).
//   primary-in-time / primary-fails / both-fail / no-standby-not-started: the deterministic clauses.

import (
	"context"
	"encoding/json"
	"errors"
	"os"
	"runtime"
	"sync/atomic"
	"testing"
	"time"

	"github.com/IrineSistiana/mosdns/v5/pkg/query_context"
	"github.com/IrineSistiana/mosdns/v5/plugin/executable/sequence"
	"github.com/miekg/dns"
	"go.uber.org/zap"
)

type verifExec struct {
	tag     uint16 // put into the answer's TTL-less A record? we use the reply's Rcode/Id: mark via Ns length
	delay   time.Duration
	fail    bool
	started *atomic.Int32
	gate    chan struct{} // if non-nil, wait for it before answering
}

func (e *verifExec) Exec(ctx context.Context, qCtx *query_context.Context) error {
	if e.started != nil {
		e.started.Add(1)
	}
	if e.gate != nil {
		select {
		case <-e.gate:
		case <-ctx.Done():
			return context.Cause(ctx)
		}
	}
	if e.delay > 0 {
		select {
		case <-time.After(e.delay):
		case <-ctx.Done():
			return context.Cause(ctx)
		}
	}
	if e.fail {
		return errors.New("upstream failed")
	}
	r := new(dns.Msg)
	r.SetReply(qCtx.Q())
	r.Rcode = int(e.tag) // 0 = primary, 3 (NXDOMAIN) = secondary: tells the answers apart
	qCtx.SetResponse(r)
	return nil
}

var _ sequence.Executable = (*verifExec)(nil)

func verifRun(f *fallback, timeout time.Duration) (*dns.Msg, error) {
	q := new(dns.Msg)
	q.SetQuestion("example.com.", dns.TypeA)
	qCtx := query_context.NewContext(q)
	ctx, cancel := context.WithTimeout(context.Background(), timeout)
	defer cancel()
	err := f.Exec(ctx, qCtx)
	return qCtx.R(), err
}

func TestVerifReplay(t *testing.T) {
	b, err := os.ReadFile(os.Getenv("VERIF_WITNESS"))
	if err != nil {
		t.Skip("no witness")
	}
	var w struct {
		Op     string `json:"op"`
		Rounds int    `json:"rounds"`
	}
	if err := json.Unmarshal(b, &w); err != nil {
		t.Fatal(err)
	}
	mk := func(p, s *verifExec, standby bool, threshold time.Duration) *fallback {
		return &fallback{logger: zap.NewNop(), primary: p, secondary: s, fastFallbackDuration: threshold, alwaysStandby: standby}
	}
	switch w.Op {
	case "standby-overtake":
		if w.Rounds == 0 {
			w.Rounds = 200000
		}
		// CPU pressure: more runnable goroutines than processors, so that the primary worker can be
		// preempted between close(primDone) and its send.
		stop := make(chan struct{})
		for i := 0; i < 4*runtime.GOMAXPROCS(0); i++ {
			go func() {
				for {
					select {
					case <-stop:
						return
					default:
					}
				}
			}()
		}
		defer close(stop)
		deadline := time.Now().Add(25 * time.Second)
		for i := 0; i < w.Rounds && time.Now().Before(deadline); i++ {
			f := mk(&verifExec{tag: 0}, &verifExec{tag: 3}, true, 2*time.Second)
			r, err := verifRun(f, 5*time.Second)
			if err != nil || r == nil {
				t.Fatalf("round %d: unexpected failure %v", i, err)
			}
			if r.Rcode != 0 {
				t.Errorf("VERIF-REPLAY-CONFIRMED: always_standby, primary answered at once (threshold 2s) but the caller got the SECONDARY's answer in round %d", i)
				return
			}
		}
	case "primary-in-time":
		var started atomic.Int32
		f := mk(&verifExec{tag: 0, delay: 20 * time.Millisecond}, &verifExec{tag: 3, started: &started}, false, 500*time.Millisecond)
		r, err := verifRun(f, 2*time.Second)
		time.Sleep(50 * time.Millisecond)
		if err != nil || r == nil || r.Rcode != 0 {
			t.Errorf("VERIF-REPLAY-CONFIRMED: primary answered within the threshold but the caller got %v / %v", r, err)
		}
		if started.Load() != 0 {
			t.Errorf("VERIF-REPLAY-CONFIRMED: secondary was started although the primary answered within the threshold (always_standby off)")
		}
	case "primary-fails":
		for _, standby := range []bool{false, true} {
			f := mk(&verifExec{fail: true}, &verifExec{tag: 3}, standby, 2*time.Second)
			t0 := time.Now()
			r, err := verifRun(f, 5*time.Second)
			if err != nil || r == nil || r.Rcode != 3 {
				t.Errorf("VERIF-REPLAY-CONFIRMED: primary failed, secondary answered, but the caller got %v / %v (standby=%v)", r, err, standby)
			}
			if time.Since(t0) > time.Second {
				t.Errorf("VERIF-REPLAY-CONFIRMED: fail-over waited for the threshold although the primary had failed (standby=%v)", standby)
			}
		}
	case "both-fail":
		f := mk(&verifExec{fail: true}, &verifExec{fail: true}, false, 50*time.Millisecond)
		r, err := verifRun(f, 2*time.Second)
		if err == nil || r != nil {
			t.Errorf("VERIF-REPLAY-CONFIRMED: both failed but the call returned %v / %v", r, err)
		}
	case "standby-discard":
		// secondary finishes first, primary answers later but inside the threshold: primary must win
		f := mk(&verifExec{tag: 0, delay: 100 * time.Millisecond}, &verifExec{tag: 3}, true, 2*time.Second)
		r, err := verifRun(f, 5*time.Second)
		if err != nil || r == nil || r.Rcode != 0 {
			t.Errorf("VERIF-REPLAY-CONFIRMED: always_standby: the secondary finished first and its answer was used although the primary answered within the threshold (%v / %v)", r, err)
		}
	default:
		t.Fatalf("unknown op %q", w.Op)
	}
}
