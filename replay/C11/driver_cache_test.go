package cache

// Replay driver for C11 / pkg/cache (go test -overlay; never written to /repo).
// Oracle: a cache configured with size S never holds more than max(S, 1024) entries.

import (
	"encoding/json"
	"os"
	"testing"
	"time"
)

type vk int

func (k vk) Sum() uint64 { return uint64(k) * 0x9e3779b97f4a7c15 }

func TestVerifReplay(t *testing.T) {
	b, err := os.ReadFile(os.Getenv("VERIF_WITNESS"))
	if err != nil {
		t.Skip("no witness")
	}
	var w struct {
		Sizes  []int `json:"sizes"`
		Stores int   `json:"stores"`
	}
	if err := json.Unmarshal(b, &w); err != nil {
		t.Fatal(err)
	}
	for _, size := range w.Sizes {
		c := New[vk, int](Opts{Size: size})
		limit := size
		if limit < 1024 {
			limit = 1024
		}
		exp := time.Now().Add(time.Hour)
		for i := 0; i < w.Stores; i++ {
			c.Store(vk(i), i, exp)
		}
		if l := c.Len(); l > limit {
			t.Errorf("VERIF-REPLAY-CONFIRMED: cache configured with size %d holds %d entries after %d stores (capacity %d)", size, l, w.Stores, limit)
		}
		c.Close()
	}
}
