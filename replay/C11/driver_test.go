package concurrent_map

// Replay driver for C11 (injected with go test -overlay, run with -race; never written to /repo).
// Oracles: no data race between the map operations (race detector), a lookup returns only what was
// stored under that key, and the number of entries stays within the configured size.

import (
	"encoding/json"
	"os"
	"sync"
	"testing"
)

type vkey int

func (k vkey) Sum() uint64 { return uint64(k) }

func TestVerifReplay(t *testing.T) {
	b, err := os.ReadFile(os.Getenv("VERIF_WITNESS"))
	if err != nil {
		t.Skip("no witness")
	}
	var w struct {
		Op     string `json:"op"`
		Size   int    `json:"size"`
		Stores int    `json:"stores"`
	}
	if err := json.Unmarshal(b, &w); err != nil {
		t.Fatal(err)
	}
	switch w.Op {
	case "flush-get", "set-get":
		m := NewMapCache[vkey, int](1024)
		for i := 0; i < 256; i++ {
			m.Set(vkey(i), i)
		}
		var wg sync.WaitGroup
		for g := 0; g < 4; g++ {
			wg.Add(2)
			go func() {
				defer wg.Done()
				for i := 0; i < 2000; i++ {
					if v, ok := m.Get(vkey(i % 256)); ok && v != i%256 {
						t.Errorf("VERIF-REPLAY-CONFIRMED: Get(%d) returned %d, a value never stored under that key", i%256, v)
					}
				}
			}()
			go func() {
				defer wg.Done()
				for i := 0; i < 200; i++ {
					if w.Op == "flush-get" {
						m.Flush()
					}
					m.Set(vkey(i%256), i%256)
				}
			}()
		}
		wg.Wait()
	case "capacity":
		m := NewMapCache[vkey, int](w.Size)
		for i := 0; i < w.Stores; i++ {
			m.Set(vkey(i), i)
			if l := m.Len(); l > w.Size {
				t.Errorf("VERIF-REPLAY-CONFIRMED: %d entries in a map of size %d", l, w.Size)
				return
			}
		}
	}
}
