package cache

// Replay driver for C19 (go test -overlay; never written to /repo).
// Oracle: dump -> load into an empty cache reproduces the entries with the same remaining TTL
// (to the second); a truncated dump reports an error and adds only entries of the intact dump;
// an absurd block length is refused before allocating.

import (
	"bytes"
	"compress/gzip"
	"encoding/binary"
	"encoding/json"
	"fmt"
	"os"
	"testing"
	"time"

	"github.com/miekg/dns"
)

func mkResp(name string, ttl uint32) *dns.Msg {
	q := new(dns.Msg)
	q.SetQuestion(name, dns.TypeA)
	r := new(dns.Msg)
	r.SetReply(q)
	r.Answer = append(r.Answer, &dns.A{Hdr: dns.RR_Header{Name: name, Rrtype: dns.TypeA, Class: dns.ClassINET, Ttl: ttl}, A: []byte{192, 0, 2, 1}})
	return r
}

func TestVerifReplay(t *testing.T) {
	b, err := os.ReadFile(os.Getenv("VERIF_WITNESS"))
	if err != nil {
		t.Skip("no witness")
	}
	var w struct {
		Op      string `json:"op"`
		TTL     uint32 `json:"ttl"`
		Entries int    `json:"entries"`
	}
	if err := json.Unmarshal(b, &w); err != nil {
		t.Fatal(err)
	}
	if w.Entries == 0 {
		w.Entries = 3
	}
	src := NewCache(&Args{Size: 4096}, Opts{})
	defer src.Close()
	keys := map[string]bool{}
	for i := 0; i < w.Entries; i++ {
		name := fmt.Sprintf("host%d.example.", i)
		q := new(dns.Msg)
		q.SetQuestion(name, dns.TypeA)
		k := getMsgKey(q)
		keys[k] = true
		if !saveRespToCache(k, mkResp(name, w.TTL), src.backend, 0) {
			t.Fatal("not stored")
		}
	}
	var buf bytes.Buffer
	if _, err := src.writeDump(&buf); err != nil {
		t.Fatal(err)
	}
	full := buf.Bytes()
	switch w.Op {
	case "roundtrip":
		dst := NewCache(&Args{Size: 4096}, Opts{})
		defer dst.Close()
		n, err := dst.readDump(bytes.NewReader(full))
		if err != nil || n != w.Entries {
			t.Errorf("VERIF-REPLAY-CONFIRMED: reload of an intact dump: n=%d err=%v (dumped %d)", n, err, w.Entries)
			return
		}
		for k := range keys {
			a, _ := getRespFromCache(k, src.backend, false, 5)
			b, _ := getRespFromCache(k, dst.backend, false, 5)
			if a == nil || b == nil {
				t.Errorf("VERIF-REPLAY-CONFIRMED: entry missing after reload (before: %v, after: %v)", a != nil, b != nil)
				return
			}
			ta, tb := a.Answer[0].Header().Ttl, b.Answer[0].Header().Ttl
			d := int64(ta) - int64(tb)
			if d < -1 || d > 1 {
				t.Errorf("VERIF-REPLAY-CONFIRMED: remaining TTL %d before the dump, %d after reloading it", ta, tb)
				return
			}
		}
	case "truncate":
		step := len(full)/97 + 1
		for cut := 0; cut < len(full); cut += step {
			dst := NewCache(&Args{Size: 4096}, Opts{})
			func() {
				defer func() {
					if r := recover(); r != nil {
						t.Errorf("VERIF-REPLAY-CONFIRMED: readDump panics on a dump truncated at %d: %v", cut, r)
					}
				}()
				_, err := dst.readDump(bytes.NewReader(full[:cut]))
				if err == nil {
					t.Errorf("VERIF-REPLAY-CONFIRMED: a dump truncated at byte %d of %d loads without error", cut, len(full))
				}
				_ = dst.backend.Range(func(k key, v *item, _ time.Time) error {
					if !keys[string(k)] {
						t.Errorf("VERIF-REPLAY-CONFIRMED: truncated dump added an entry the intact dump does not contain")
					}
					return nil
				})
			}()
			dst.Close()
		}
	case "hugeblock":
		var raw bytes.Buffer
		gw, _ := gzip.NewWriterLevel(&raw, gzip.BestSpeed)
		gw.Name = dumpHeader
		l := make([]byte, 8)
		binary.BigEndian.PutUint64(l, 1<<40)
		gw.Write(l)
		gw.Close()
		dst := NewCache(&Args{Size: 4096}, Opts{})
		defer dst.Close()
		if _, err := dst.readDump(bytes.NewReader(raw.Bytes())); err == nil {
			t.Errorf("VERIF-REPLAY-CONFIRMED: a block length of 2^40 was accepted")
		}
	}
}
