package netlist

// Replay driver for C13 (injected with go test -overlay; never written to /repo).
// Oracle: Contains(addr) == "some loaded prefix covers addr", with an IPv4 address
// and its v4-mapped IPv6 form identified on both sides (linear scan, netip only).
// "enumerate": n runs a bounded search: all lists of up to n prefixes over a toy
// 4-bit space embedded in IPv4 (10.0.0.0/28) and IPv6, every address of the space.

import (
	"encoding/json"
	"fmt"
	"net/netip"
	"os"
	"testing"
)

type c13w struct {
	Prefixes  []string `json:"prefixes"`
	Addrs     []string `json:"addrs"`
	Enumerate int      `json:"enumerate"`
}

func unmapA(a netip.Addr) netip.Addr { return a.Unmap() }

func covers(ps []netip.Prefix, a netip.Addr) bool {
	a = unmapA(a)
	for _, p := range ps {
		pa := unmapA(p.Addr())
		bits := p.Bits()
		if p.Addr().Is4In6() {
			if bits < 96 {
				// a v6 prefix shorter than /96 covering the mapped range covers all of IPv4
				if a.Is4() {
					m := netip.PrefixFrom(p.Addr(), bits).Masked()
					if m.Contains(netip.AddrFrom16(a.As16())) {
						return true
					}
				}
				if a.Is6() && netip.PrefixFrom(p.Addr(), bits).Masked().Contains(a) {
					return true
				}
				continue
			}
			bits -= 96
		} else if p.Addr().Is6() && a.Is4() {
			if netip.PrefixFrom(p.Addr(), bits).Masked().Contains(netip.AddrFrom16(a.As16())) {
				return true
			}
			continue
		}
		if pa.BitLen() != a.BitLen() {
			continue
		}
		if netip.PrefixFrom(pa, bits).Masked().Contains(a) {
			return true
		}
	}
	return false
}

func check(t *testing.T, ps []netip.Prefix, addrs []netip.Addr) bool {
	l := NewList()
	cp := append([]netip.Prefix(nil), ps...)
	l.Append(cp...)
	l.Sort()
	for _, a := range addrs {
		want := covers(ps, a)
		if got := l.Contains(a); got != want {
			t.Errorf("VERIF-REPLAY-CONFIRMED: prefixes %v: Contains(%v) = %v, a linear scan over the loaded prefixes says %v", ps, a, got, want)
			return false
		}
	}
	return true
}

func TestVerifReplay(t *testing.T) {
	b, err := os.ReadFile(os.Getenv("VERIF_WITNESS"))
	if err != nil {
		t.Skip("no witness")
	}
	var w c13w
	if err := json.Unmarshal(b, &w); err != nil {
		t.Fatal(err)
	}
	if w.Enumerate > 0 {
		var space []netip.Prefix
		var addrs []netip.Addr
		for bits := 28; bits <= 32; bits++ {
			for base := 0; base < 16; base += 1 << (32 - bits) {
				space = append(space, netip.MustParsePrefix(fmt.Sprintf("10.0.0.%d/%d", base, bits)))
			}
		}
		space = append(space, netip.MustParsePrefix("10.0.0.5/29"), netip.MustParsePrefix("::ffff:10.0.0.8/125"), netip.MustParsePrefix("2001:db8::/126"), netip.MustParsePrefix("2001:db8::2/128"))
		for i := 0; i < 16; i++ {
			addrs = append(addrs, netip.MustParseAddr(fmt.Sprintf("10.0.0.%d", i)), netip.MustParseAddr(fmt.Sprintf("::ffff:10.0.0.%d", i)))
		}
		addrs = append(addrs, netip.MustParseAddr("9.255.255.255"), netip.MustParseAddr("10.0.0.16"), netip.MustParseAddr("2001:db8::1"), netip.MustParseAddr("2001:db8::3"), netip.MustParseAddr("2001:db8::4"))
		n := len(space)
		idx := make([]int, 0, w.Enumerate)
		var rec func(depth int) bool
		rec = func(depth int) bool {
			var ps []netip.Prefix
			for _, i := range idx {
				ps = append(ps, space[i])
			}
			if len(ps) > 0 && !check(t, ps, addrs) {
				return false
			}
			if depth == w.Enumerate {
				return true
			}
			for i := 0; i < n; i++ {
				idx = append(idx, i)
				ok := rec(depth + 1)
				idx = idx[:len(idx)-1]
				if !ok {
					return false
				}
			}
			return true
		}
		if w.Enumerate > 2 {
			// depth 3 over the full space is too large for a replay: thin the space
			space = space[:20]
			n = len(space)
		}
		rec(0)
		return
	}
	var ps []netip.Prefix
	for _, s := range w.Prefixes {
		ps = append(ps, netip.MustParsePrefix(s))
	}
	var as []netip.Addr
	for _, s := range w.Addrs {
		as = append(as, netip.MustParseAddr(s))
	}
	check(t, ps, as)
}
