package transport

// Replay driver for C09 (injected with go test -overlay; never written to /repo).
// Oracle: a healthy connection holding fewer unanswered queries than its limit admits another one,
// never more than the limit, and capacity is not lost after completed / cancelled / withdrawn queries.

import (
	"context"
	"encoding/json"
	"io"
	"os"
	"sync"
	"testing"
	"time"

	"github.com/miekg/dns"
)

type verifSilentConn struct {
	mu      sync.Mutex
	writes  int
	cond    *sync.Cond
	closed  chan struct{}
	once    sync.Once
}

func newVerifSilentConn() *verifSilentConn {
	c := &verifSilentConn{closed: make(chan struct{})}
	c.cond = sync.NewCond(&c.mu)
	return c
}
func (c *verifSilentConn) Read(p []byte) (int, error) { <-c.closed; return 0, io.EOF }
func (c *verifSilentConn) Write(p []byte) (int, error) {
	c.mu.Lock()
	c.writes++
	c.cond.Broadcast()
	c.mu.Unlock()
	return len(p), nil
}
func (c *verifSilentConn) waitWrites(n int) {
	c.mu.Lock()
	for c.writes < n {
		c.cond.Wait()
	}
	c.mu.Unlock()
}
func (c *verifSilentConn) Close() error                     { c.once.Do(func() { close(c.closed) }); return nil }
func (c *verifSilentConn) SetDeadline(time.Time) error      { return nil }
func (c *verifSilentConn) SetReadDeadline(time.Time) error  { return nil }
func (c *verifSilentConn) SetWriteDeadline(time.Time) error { return nil }

func TestVerifReplay(t *testing.T) {
	b, err := os.ReadFile(os.Getenv("VERIF_WITNESS"))
	if err != nil {
		t.Skip("no witness")
	}
	var w struct {
		Op       string `json:"op"`
		Limit    int    `json:"limit"`
		InFlight int    `json:"in_flight"`
	}
	if err := json.Unmarshal(b, &w); err != nil {
		t.Fatal(err)
	}
	q := new(dns.Msg)
	q.SetQuestion("example.com.", dns.TypeA)
	qb, _ := q.Pack()
	nc := newVerifSilentConn()
	dc := NewDnsConn(TraditionalDnsConnOpts{WithLengthHeader: true, MaxConcurrentQuery: w.Limit}, nc)
	defer dc.Close()
	switch w.Op {
	case "admit-below-limit":
		// in_flight exchanges are running (sent, unanswered); one more must be admitted iff in_flight < limit
		ctx, cancel := context.WithCancel(context.Background())
		var wg sync.WaitGroup
		for i := 0; i < w.InFlight; i++ {
			rec, _ := dc.ReserveNewQuery()
			if rec == nil {
				t.Errorf("VERIF-REPLAY-CONFIRMED: limit %d: reservation #%d refused while only %d queries are unanswered", w.Limit, i+1, i)
				cancel()
				wg.Wait()
				return
			}
			wg.Add(1)
			go func() { defer wg.Done(); rec.ExchangeReserved(ctx, qb) }()
			nc.waitWrites(i + 1)
		}
		rec, _ := dc.ReserveNewQuery()
		if w.InFlight < w.Limit && rec == nil {
			t.Errorf("VERIF-REPLAY-CONFIRMED: limit %d, %d unanswered: a further query was refused although the connection is below its limit", w.Limit, w.InFlight)
		}
		if w.InFlight >= w.Limit && rec != nil {
			t.Errorf("VERIF-REPLAY-CONFIRMED: limit %d, %d unanswered: a further query was admitted above the limit", w.Limit, w.InFlight)
		}
		if rec != nil {
			rec.WithdrawReserved()
		}
		cancel()
		wg.Wait()
	case "no-leak":
		// a history of cancelled and withdrawn queries, then the connection must admit exactly `limit` again
		for round := 0; round < 5; round++ {
			for i := 0; i < w.Limit; i++ {
				rec, _ := dc.ReserveNewQuery()
				if rec == nil {
					t.Errorf("VERIF-REPLAY-CONFIRMED: limit %d: after %d rounds of finished queries reservation #%d was refused (capacity leaked)", w.Limit, round, i+1)
					return
				}
				if i%2 == 0 {
					rec.WithdrawReserved()
				} else {
					ctx, cancel := context.WithTimeout(context.Background(), 5*time.Millisecond)
					rec.ExchangeReserved(ctx, qb)
					cancel()
				}
			}
		}
		var recs []ReservedExchanger
		for i := 0; i < w.Limit; i++ {
			rec, _ := dc.ReserveNewQuery()
			if rec == nil {
				t.Errorf("VERIF-REPLAY-CONFIRMED: limit %d: only %d of %d reservations granted on an idle connection (capacity leaked)", w.Limit, i, w.Limit)
				break
			}
			recs = append(recs, rec)
		}
		if rec, _ := dc.ReserveNewQuery(); rec != nil {
			t.Errorf("VERIF-REPLAY-CONFIRMED: limit %d: reservation %d granted above the limit", w.Limit, w.Limit+1)
			rec.WithdrawReserved()
		}
		for _, r := range recs {
			r.WithdrawReserved()
		}
		dc.queueMu.Lock()
		left := dc.reservedQuery
		dc.queueMu.Unlock()
		if left != 0 {
			t.Errorf("VERIF-REPLAY-CONFIRMED: reservedQuery is %d after every reservation was released", left)
		}
	default:
		t.Fatalf("unknown op %q", w.Op)
	}
}
