#!/bin/bash
# usage: trymutant.sh <patch.diff> <PROP> [extra vcheck args]  — applies the patch to /repo, runs the check, reverts.
set -u
patch=$(readlink -f "$1"); prop=$2; shift 2
cd /repo || exit 2
if ! git diff --quiet; then echo "repo dirty"; exit 2; fi
if ! git apply --check "$patch" 2>/dev/null; then
  if git apply --3way "$patch" >/dev/null 2>&1; then git reset -q; else echo "PATCH-DOES-NOT-APPLY $patch"; git checkout -- . ; exit 3; fi
else
  git apply "$patch"
fi
cd /verif && VERIF_EVIDENCE_DIR=/verif/out/evidence-trial ./bin/vcheck check "$prop" "$@"; rc=$?
git -C /repo checkout -- . ; git -C /repo clean -fdq -- . >/dev/null 2>&1
echo "exit=$rc"
