#!/bin/bash
# thorough check of one property:
#   1. must-fail canaries: every corpus mutant of the property is applied to a scratch COPY of /repo's
#      working tree (never to /repo itself) and must be reported by the quick check; the tally goes
#      into the evidence (a missed canary weakens the evidence, it is not a violation of the property)
#   2. all obligations incl. clauses marked [slow], 60 s per obligation, then replay of every
#      stored witness against the real code
# usage: thorough.sh <ID>
set -u
id=$1
export GOFLAGS=-mod=mod GOPROXY=off GOSUMDB=off GOTOOLCHAIN=local
cd /verif || exit 2
mkdir -p out
if [ -z "${VERIF_NO_CANARIES:-}" ]; then
  scratch=$(mktemp -d /tmp/verif-canary-$id-XXXXXX)
  trap 'rm -rf "$scratch"' EXIT
  python3 tools/canaries.py "$id" "$scratch" > out/$id-canaries.json 2> out/$id-canaries.log || true
  rm -rf "$scratch"; trap - EXIT
fi
VERIF_CANARY_FILE=/verif/out/$id-canaries.json ./bin/vcheck check "$id" --tier thorough
