#!/bin/bash
# run every property that has contracts; one line each
cd /verif
for p in ${@:-C01 C02 C03 C04 C05 C06 C07 C08 C09 C10 C11 C12 C13 C14 C15 C16 C17 C18 C19 C20}; do
  ./bin/vcheck check $p 2>&1 | grep "^property=\|VIOLATION\|KNOWN" | sed 's/replay=[^ ]*//' | cut -c1-160 | tail -4
done
