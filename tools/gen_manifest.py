#!/usr/bin/env python3
# Regenerates /verif/MANIFEST.json from tools/manifest_src.json (claims) + properties.jsonl
import json,subprocess
src=json.load(open('/verif/tools/manifest_src.json'))
props=[json.loads(l)['id'] for l in open('/verif/properties.jsonl')]
hooks=subprocess.run(['git','-C','/repo','log','--format=%H %s'],capture_output=True,text=True).stdout.strip().split('\n')
hook_commits=[l.split()[0] for l in hooks if l.split(' ',1)[1].startswith('verif:')]
checks=[]
for p in props:
    if p in src['claims']:
        c=src['claims'][p]
        checks.append({"property_id":p,
          "quick_cmd":"./bin/vcheck check %s --tier quick"%p,
          "thorough_cmd":"tools/thorough.sh %s"%p,
          "evidence_file":"/verif/evidence/%s.json"%p,
          "replay_cmd_template":"./bin/vcheck replay {path}",
          "engine":"gocv",
          "level_claimed":{"category":"proof","text":c['text'],"design_ref":c.get('design_ref','DESIGN.md §10 '+p)},
          "level_note":c['note'],
          "technique":c.get('technique',"contract-based deductive verification: weakest-precondition style VC generation over go/ssa from //@ contracts, discharged by z3/cvc5")})
na=[{"property_id":p,"reason":src['not_applicable'].get(p,"contracts not completed yet (engine under construction); see DESIGN.md §12 descoping rule")} for p in props if p not in src['claims']]
m={"version":1,
 "setup_cmd":"cd /verif/engine && GOFLAGS=-mod=mod GOPROXY=off GOSUMDB=off GOTOOLCHAIN=local go build -o ../bin/vcheck ./cmd/vcheck",
 "hooks":{"guard":"verif","enable":"-tags=verif (contracts are comment-only files contracts_verif.go; the compiled program is identical with the tag on or off)",
   "baseline_off_cmd":"cd /repo && go test -mod=mod -json -vet=off -count=1 -timeout 25m ./...",
   "source_commits":hook_commits,"add_only":True},
 "engines":[{"name":"gocv","path":"/verif/engine","serves_properties":sorted(src['claims'].keys()),
   "kind_free_text":"contract-based deductive verifier for Go written for this task: symbolic execution of go/ssa per function against //@ contracts (requires/ensures/modifies/loop invariants/lock invariants/call logs), callee contracts at call sites, obligations discharged by z3 5.1.0 / z3 4.8.12 / cvc5 1.0.3; replay of counterexamples on the real code via go test -overlay"}],
 "checks":checks,
 "notes":src.get('notes',''),
 "not_applicable":na}
json.dump(m,open('/verif/MANIFEST.json','w'),indent=1)
print(len(checks),'checks',len(na),'n/a')
