#!/usr/bin/env python3
"""Must-fail / benign corpus: each entry is a textual edit of /repo (applied to the working tree and
reverted afterwards). Mutants must make the named property's check exit 1 (and, if given, name an
obligation matching `expect`); benign edits must leave it at exit 0.
usage: selftest.py [PROP | entry-name ...]"""
import json,subprocess,sys,os,re
corpus=json.load(open('/verif/selftest/corpus.json'))
want=set(sys.argv[1:])
bad=0
def sh(*a,**k): return subprocess.run(*a,capture_output=True,text=True,**k)
if sh(['git','-C','/repo','status','--porcelain','--untracked-files=no']).stdout.strip():
    print('repo dirty'); sys.exit(2)
for c in corpus:
    if want and c['prop'] not in want and c['name'] not in want and not any(c['name'].startswith(w+'-') for w in want): continue
    p='/repo/'+c['file']; s=open(p).read()
    if c['old'] not in s:
        print('STALE   %-34s (text to replace not found in %s)'%(c['name'],c['file'])); bad+=1; continue
    open(p,'w').write(s.replace(c['old'],c['new'],1))
    try:
        b=sh(['go','build','./...'],cwd='/repo',env=dict(os.environ,GOFLAGS='-mod=mod',GOPROXY='off',GOSUMDB='off',GOTOOLCHAIN='local'))
        if b.returncode!=0:
            print('NOBUILD %-34s %s'%(c['name'],b.stderr[:200])); bad+=1; continue
        r=sh(['/verif/bin/vcheck','check',c['prop']],cwd='/verif',env=dict(os.environ,VERIF_EVIDENCE_DIR='/verif/out/evidence-trial'))
        obs=re.findall(r'obligation=(\S+)',r.stdout)
        if c.get('benign'):
            ok=r.returncode==0
        else:
            ok=r.returncode==1 and (not c.get('expect') or any(re.search(c['expect'],o) for o in obs))
        print('%-7s %-34s prop=%s exit=%d %s'%('ok' if ok else 'MISSED' if not c.get('benign') else 'FALSE-ALARM',c['name'],c['prop'],r.returncode,' '.join(o.split('/')[-1] if False else o[-60:] for o in obs[:3])))
        if not ok: bad+=1
    finally:
        sh(['git','-C','/repo','checkout','--',c['file']])
print('selftest:', 'all good' if bad==0 else '%d problem(s)'%bad)
sys.exit(1 if bad else 0)
