#!/bin/bash
# usage: [SEED_SRC=dir] [SEED_BASE=commit] confirm_seed.sh <ID> <k> [outname]  — independently confirm a seeded change from $SEED_SRC/<ID>/ (default /tmp/seedout)
# in a scratch worktree; on success store it under /verif/seeded/<outname>/
set -u
export GOFLAGS=-mod=mod GOPROXY=off GOSUMDB=off GOTOOLCHAIN=local
id=$1; k=$2; out=${3:-$id-$k}
src=${SEED_SRC:-/tmp/seedout}/$id
wt=/tmp/wt/confirm-$id-$k
meta=$src/meta$k.json
[ -f "$meta" ] || { echo "no meta"; exit 2; }
base=${SEED_BASE:-$(git -C /repo rev-list --max-parents=0 HEAD | tail -1)}
git -C /repo worktree add -q --detach "$wt" "$base" || exit 2
cleanup(){ git -C /repo worktree remove --force "$wt" >/dev/null 2>&1; }
trap cleanup EXIT
pkgdir=$(python3 -c "import json;print(json.load(open('$meta'))['demo_pkg_dir'])")
pkgdir=${pkgdir#/tmp/wt/$id/}; pkgdir=${pkgdir#/tmp/wt7/$id/}; pkgdir=${pkgdir#./}
demo=$(ls $src/demo${k}_test.go 2>/dev/null | head -1)
[ -n "$demo" ] || { echo "no demo file"; exit 2; }
runpat=$(grep -oE 'func (Test[A-Za-z0-9_]+)' "$demo" | awk '{print $2}' | paste -sd'|')
cd "$wt" || exit 2
git apply "$src/patch$k.diff" || { echo "APPLY-FAIL"; exit 3; }
go build ./... || { echo "BUILD-FAIL"; exit 3; }
go test -vet=off -count=1 -timeout 25m ./... > /tmp/confirm-$id-$k.suite.log 2>&1
fails=$(grep -E '^(--- FAIL|FAIL)' /tmp/confirm-$id-$k.suite.log | grep -v 'Test_fastUpstream' | grep -v '^FAIL$' | grep -v 'pkg/upstream\s' | head -5)
suite_ok=true; [ -n "$fails" ] && suite_ok=false
cp "$demo" "$wt/$pkgdir/zz_demo${k}_test.go"
go test -vet=off -count=1 -timeout 120s -run "^($runpat)\$" ./$pkgdir/ > /tmp/confirm-$id-$k.with.log 2>&1; rc_with=$?
git checkout -q -- . 
go test -vet=off -count=1 -timeout 120s -run "^($runpat)\$" ./$pkgdir/ > /tmp/confirm-$id-$k.without.log 2>&1; rc_without=$?
echo "id=$id k=$k suite_ok=$suite_ok demo_with_change_rc=$rc_with demo_without_rc=$rc_without"
if [ "$suite_ok" = true ] && [ $rc_with -ne 0 ] && [ $rc_without -eq 0 ]; then
  d=/verif/seeded/$out; mkdir -p $d
  cp "$src/patch$k.diff" $d/patch.diff; cp "$demo" $d/demo_test.go
  python3 - "$meta" "$d/meta.json" "$pkgdir" "$runpat" "$base" <<'PY'
import json,sys
m=json.load(open(sys.argv[1]))
m['confirmed_by']={'what_i_ran':[
 'git worktree of commit %s; git apply patch.diff; go build ./...'%sys.argv[5],
 'go test -vet=off -count=1 ./... (whole suite) with the change: passes (Test_fastUpstream flaky case ignored)',
 'demo placed in %s as zz_demo_test.go; go test -run "^(%s)$" with the change: FAILS'%(sys.argv[3],sys.argv[4]),
 'git checkout -- . ; same demo without the change: PASSES'],
 'demo_pkg_dir':sys.argv[3],'base_commit':sys.argv[5]}
json.dump(m,open(sys.argv[2],'w'),indent=1)
PY
  echo "KEPT $d"
else
  echo "REJECTED (see /tmp/confirm-$id-$k.*.log)"; [ -n "$fails" ] && echo "$fails"
fi
