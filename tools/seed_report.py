#!/usr/bin/env python3
"""Run every seeded change under /verif/seeded against its property's quick check (patch applied
to /repo's working tree, reverted afterwards) and write /verif/seeded/RESULTS.md + results.json."""
import json,subprocess,os,re,glob,sys
rows=[]
only=set(sys.argv[1:])   # optional: re-run only these seeds, keep the stored rows of the others
stored={}
if only and os.path.exists('/verif/seeded/results.json'):
    stored={r['seed']:r for r in json.load(open('/verif/seeded/results.json'))}
for d in sorted(glob.glob('/verif/seeded/C*-*')):
    s=os.path.basename(d); prop=s.split('-')[0]
    if only and s not in only and s in stored:
        rows.append(stored[s]); continue
    meta=json.load(open(d+'/meta.json'))
    r=subprocess.run(['/verif/tools/trymutant.sh',d+'/patch.diff',prop],capture_output=True,text=True)
    out=r.stdout
    obs=re.findall(r'obligation=(\S+)',out)
    m=re.search(r'exit=(\d+)',out); rc=int(m.group(1)) if m else -1
    rows.append({'seed':s,'property':prop,'files':meta.get('files_changed'),'what':(meta.get('what_breaks') or '')[:300],
                 'exit':rc,'caught':rc==1,'obligations':obs[:4]})
    print(s,rc,obs[:2],flush=True)
json.dump(rows,open('/verif/seeded/results.json','w'),indent=1)
with open('/verif/seeded/RESULTS.md','w') as f:
    f.write('# Seeded property-breaking changes vs. the quick checks\n\n')
    f.write('Each change was produced by a fresh sub-agent that saw only the property text and its own scratch worktree, compiles, passes the whole test suite, and comes with a demonstration that fails with the change and passes without it (independently re-confirmed, see meta.json). `caught` = the property\'s quick check exits 1 with a VIOLATION line when the patch is applied to /repo.\n\n')
    f.write('| seed | files | caught | first failing obligations | what breaks |\n|---|---|---|---|---|\n')
    for r in rows:
        f.write('| %s | %s | %s | %s | %s |\n'%(r['seed'],', '.join(r['files'] or []),'yes' if r['caught'] else '**NO**','<br>'.join(o.replace('|','\\|') for o in r['obligations']),r['what'].replace('|','\\|').replace('\n',' ')))
    n=len(rows); c=sum(1 for r in rows if r['caught'])
    f.write('\n%d of %d seeded changes are caught.\n'%(c,n))
