#!/usr/bin/env python3
"""Apply each must-fail corpus entry of a property to a scratch copy of /repo's working tree and run
the quick check on the copy. Prints a JSON summary. Never touches /repo."""
import json,subprocess,sys,os,shutil
prop,scratch=sys.argv[1],sys.argv[2]
corpus=[c for c in json.load(open('/verif/selftest/corpus.json')) if c['prop']==prop]
env=dict(os.environ,GOFLAGS='-mod=mod',GOPROXY='off',GOSUMDB='off',GOTOOLCHAIN='local',
         VERIF_EVIDENCE_DIR='/verif/out/evidence-trial',VERIF_NO_REPLAY='1')
res=[]
copy=os.path.join(scratch,'repo')
subprocess.run(['rsync','-a','--exclude','.git','/repo/',copy+'/'],check=True)
for c in corpus:
    p=os.path.join(copy,c['file'])
    try: s=open(p).read()
    except OSError: res.append({'name':c['name'],'status':'stale'}); continue
    if c['old'] not in s: res.append({'name':c['name'],'status':'stale'}); continue
    open(p,'w').write(s.replace(c['old'],c['new'],1))
    try:
        b=subprocess.run(['go','build','./...'],cwd=copy,env=env,capture_output=True,text=True)
        if b.returncode!=0: res.append({'name':c['name'],'status':'nobuild'}); continue
        r=subprocess.run(['/verif/bin/vcheck','check',prop,'--repo',copy],cwd='/verif',env=env,capture_output=True,text=True)
        if c.get('benign'):
            res.append({'name':c['name'],'status':'benign-quiet' if r.returncode==0 else 'benign-ALARM'})
        else:
            if r.returncode==1:
                res.append({'name':c['name'],'status':'caught'})
            else:
                # clauses marked [slow] are proved by the thorough tier only
                r2=subprocess.run(['/verif/bin/vcheck','check',prop,'--repo',copy,'--tier','thorough'],cwd='/verif',env=env,capture_output=True,text=True)
                res.append({'name':c['name'],'status':'caught-thorough' if r2.returncode==1 else 'MISSED'})
    finally:
        open(p,'w').write(s)
summ={'property':prop,'mutants':sum(1 for r in res if r['status'] in('caught','caught-thorough','MISSED')),
      'caught':sum(1 for r in res if r['status'] in('caught','caught-thorough')),
      'benign':sum(1 for r in res if r['status'].startswith('benign')),
      'benign_quiet':sum(1 for r in res if r['status']=='benign-quiet'),'entries':res}
print(json.dumps(summ,indent=1))
