#!/usr/bin/env python3
# greedy minimal unsat subset of the (assert ...) lines of an SMT file
import sys,subprocess,re
f=sys.argv[1]
lines=open(f).read().split('\n')
idx=[i for i,l in enumerate(lines) if l.startswith('(assert')]
def run(keep):
    t='\n'.join(l for i,l in enumerate(lines) if not l.startswith('(assert') or i in keep)
    t=t.replace('(get-value','; (get-value')
    open('/tmp/core.smt2','w').write(t)
    o=subprocess.run(['z3-new','-T:3','/tmp/core.smt2'],capture_output=True,text=True).stdout
    return o.split('\n')[0]
keep=set(idx)
assert run(keep)=='unsat', run(keep)
for i in idx:
    k2=keep-{i}
    if run(k2)=='unsat': keep=k2
for i in sorted(keep):
    l=lines[i].replace('github.com/IrineSistiana/mosdns/v5/','')
    print(l[:int(sys.argv[2]) if len(sys.argv)>2 else 400]); print()
